(* C01 — every call history agrees with a reference ordered map.
   For every capacity c >= 4 and every finite history of calls (bound in the theorem:
   2 * weight + 8 < 2^32-1, i.e. about two thousand million calls; `fits`), the model of
   BPlusTreeMap returns exactly what the abstract ordered map (sorted association list,
   Common/AMap.v; itself run against std's BTreeMap by the harness) returns, no call
   panics / loops / hits UB, and the contents afterwards are the abstract map's.
   The remaining theorems are the property's sentences, stated on the abstract map the
   implementation is proved equal to.
   OBLIGATIONS: C01_history_agrees_with_reference_map C01_no_call_panics C01_step_agrees C01_insert_returns_previous_keeps_first_key C01_remove_returns_stored_leaves_rest C01_get_mut_changes_only_that_key C01_len_counts_distinct_keys C01_arena_level_mutators_simulate C01_nonvacuous C01_reachable_states_good C01_reachable_states_have_room C01_arena_level_on_reachable C01_contents_agree_all_ops C01_remove_keeps_other_entries C01_insert_keeps_other_entries C01_get_mut_finds_what_get_finds C01_history_of_any_length C01_call_count_bound_implies_state_bound C01_any_number_of_reads C01_beyond_the_call_count_bound *)
From BPT Require Import Common.Base Common.AMap Rust.Arena Rust.Tree Rust.Heap Rust.Readers Rust.Run
     Rust.InvDefs Rust.Repr Rust.Spec Rust.ReachDefs Rust.Lib Rust.TreeFactsI Rust.Reach Rust.ReadersGet Rust.HeapOps Rust.HeapOpsSim Props.Reachable.
From BPT Require Extra.RustExtra2.
From BPT Require Import Extra.AnyLength.
From BPT Require Extra.RustExtra.

Theorem C01_history_agrees_with_reference_map :
  forall (V : Type) (c : nat) (ops : list (op V)),
    4 <= c -> fits (ops_weight ops) -> forallb (@abstract_op V) ops = true ->
    exists b0, b_new V c = Some b0 /\
      spec_run [] ops = (contents (root (fst (run b0 ops))), snd (run b0 ops)).
Proof. exact refines_amap. Qed.

Theorem C01_no_call_panics :
  forall (V : Type) (c : nat) (ops : list (op V)), 4 <= c -> fits (ops_weight ops) ->
    exists b0, b_new V c = Some b0 /\ Inv (fst (run b0 ops)) /\ rooms (fst (run b0 ops)) /\
      forallb (fun x => negb (out_is_error x)) (snd (run b0 ops)) = true.
Proof. exact reachable_inv. Qed.

(* one call on any state satisfying the invariant *)
Theorem C01_step_agrees :
  forall (V : Type) n (b : bstate V) (o : op V),
    Good n b -> fits (n + op_weight o) -> abstract_op o = true ->
    spec_step (contents (root b)) o = (contents (root (fst (step b o))), snd (step b o)).
Proof. exact step_refines. Qed.

(* insert returns the previous value iff the key was present, stores the new value, keeps
   every other entry, and keeps the key object that was stored first *)
Theorem C01_insert_returns_previous_keeps_first_key :
  forall (V : Type) (m : amap V) k v, m_sorted m ->
    snd (spec_step m (OInsert k v)) = UOpt (m_get m (kz k)) /\
    m_get (fst (spec_step m (OInsert k v))) (kz k) = Some v /\
    (forall z, z <> kz k -> m_get (fst (spec_step m (OInsert k v))) z = m_get m z) /\
    (forall k0 v0, In (k0, v0) m -> kz k0 = kz k -> In (k0, v) (fst (spec_step m (OInsert k v)))) /\
    m_sorted (fst (spec_step m (OInsert k v))).
Proof.
  intros V m k v S. cbn [spec_step fst snd]. repeat split.
  - apply m_get_insert_same; exact S.
  - intros z Hz. apply m_get_insert_other; assumption.
  - intros k0 v0 Hin Hk. eapply m_insert_keeps_key; eauto.
  - apply m_sorted_insert; exact S.
Qed.

Theorem C01_remove_returns_stored_leaves_rest :
  forall (V : Type) (m : amap V) z, m_sorted m ->
    snd (spec_step m (ORemove z)) = UOpt (m_get m z) /\
    m_get (fst (spec_step m (ORemove z))) z = None /\
    (forall z', z' <> z -> m_get (fst (spec_step m (ORemove z))) z' = m_get m z') /\
    m_sorted (fst (spec_step m (ORemove z))).
Proof.
  intros V m z S. cbn [spec_step fst snd]. repeat split.
  - apply m_get_remove_same; exact S.
  - intros z' Hz. apply m_get_remove_other; assumption.
  - apply m_sorted_remove; exact S.
Qed.

Theorem C01_get_mut_changes_only_that_key :
  forall (V : Type) (m : amap V) z v, m_sorted m ->
    m_get (fst (spec_step m (OGetMutWrite z v))) z = match m_get m z with Some _ => Some v | None => None end /\
    (forall z', z' <> z -> m_get (fst (spec_step m (OGetMutWrite z v))) z' = m_get m z') /\
    map fst (fst (spec_step m (OGetMutWrite z v))) = map fst m.
Proof.
  intros V m z v S. cbn [spec_step fst snd]. repeat split.
  - apply m_get_update_same; exact S.
  - intros z' Hz. apply m_get_update_other; assumption.
  - apply map_fst_m_update.
Qed.

(* len = number of distinct live keys: the contents are strictly sorted by key, so their
   length counts distinct keys *)
Theorem C01_len_counts_distinct_keys :
  forall (V : Type) (c : nat) (ops : list (op V)), 4 <= c -> fits (ops_weight ops) ->
    exists b, state_after c ops = Some b /\ m_sorted (contents (root b)) /\
      snd (step b OLen) = UNat (length (contents (root b))).
Proof.
  intros V c ops Hc F. destruct (@reachable_state V c ops Hc F) as (b & E & I & R & HO & Hcap).
  exists b. split; [exact E|]. split.
  - destruct (inv_shape I) as [h Sh]. eapply contents_sorted; [apply (inv_ord I)|exact Sh].
  - cbn [step snd]. rewrite (@ReadersGet.len_spec V b (flatten b) I HO). reflexivity.
Qed.

(* The mutators as the crate performs them - on the two arenas, by node id (Rust/HeapOps.v:
   insert_A, remove_A, get_mut_write_A, clear_A transcribe insert_operations.rs /
   delete_operations.rs / get_operations.rs / tree_structure.rs at arena level) - applied to
   the arena layout of a state give exactly the arena layout of the tree-level model's
   result, with the same return value: the theorems of this file are about the arena-level
   algorithm too. *)
Theorem C01_arena_level_mutators_simulate :
  forall (V : Type) (b : bstate V), Inv b -> room (lmeta b) 1 -> room (bmeta b) (height (root b) + 2) ->
    (forall k v, exists b' old, b_insert b k v = Ok (b', old) /\ insert_A (flatten b) k v = Ok (flatten b', old)) /\
    (rooms b -> forall z, exists b' old, b_remove b z = Ok (b', old) /\ remove_A (flatten b) z = Ok (flatten b', old)) /\
    (rooms b -> forall z v, exists b' ok, b_get_mut_write b z v = Ok (b', ok) /\
                                           get_mut_write_A (flatten b) z v = Ok (flatten b', ok)) /\
    clear_A (flatten b) = flatten (b_clear b).
Proof.
  intros V b I R1 R2. split; [|split; [|split]].
  - intros k v. apply insert_sim; assumption.
  - intros R z. apply remove_sim; assumption.
  - intros R z v. apply get_mut_write_sim; assumption.
  - apply clear_sim.
Qed.

Definition C01_nonvacuous := (ReachExamples.ex_agree, ReachExamples.ex_fits, ReachExamples.ex_abstract).

(* every reachable state is Good: discharges the hypothesis Good n b of the per-step theorems (C01_step_agrees, C04_every_step_preserves, C10_checked_calls_equal_basic_calls, C11_returned_object_is_the_stored_one) for all reachable states *)
Theorem C01_reachable_states_good : forall (V : Type) (c : nat) (ops : list (op V)), 4 <= c -> fits (ops_weight ops) ->
  exists b, state_after c ops = Some b /\ Good (ops_weight ops) b.
Proof. exact RustExtra.reachable_states_good. Qed.

(* ... and has the arena room the arena-level simulation and the growth theorem ask for *)
Theorem C01_reachable_states_have_room : forall (V : Type) (c : nat) (ops : list (op V)), 4 <= c -> fits (ops_weight ops + 1) ->
  exists b, state_after c ops = Some b /\ Inv b /\ rooms b /\
    room (lmeta b) 1 /\ room (bmeta b) (height (root b) + 2).
Proof. exact RustExtra.reachable_states_have_room. Qed.

(* on EVERY reachable state the arena-level mutators (HeapOps.v: what the crate's code does slot by slot, free lists and freed-slot contents included) produce exactly flatten of the tree-level result *)
Theorem C01_arena_level_on_reachable : forall (V : Type) (c : nat) (ops : list (op V)) (o : op V), 4 <= c -> fits (ops_weight ops + 1) ->
  exists b, state_after c ops = Some b /\
    match mut_A (flatten b) o with
    | Some r => r = Ok (flatten (fst (step b o)), snd (step b o))
    | None => True
    end.
Proof. exact RustExtra.arena_level_on_reachable. Qed.

(* refinement also for histories that interleave the two non-abstract read-only calls (OFromPos, OIntrospect) *)
Theorem C01_contents_agree_all_ops : forall (V : Type) (c : nat) (ops : list (op V)), 4 <= c -> fits (ops_weight ops) ->
  exists b0, b_new V c = Some b0 /\
    fst (spec_run [] ops) = contents (root (fst (run b0 ops))) /\
    forall i o, nth_error ops i = Some o -> abstract_op o = true ->
      nth_error (snd (run b0 ops)) i = nth_error (snd (spec_run [] ops)) i.
Proof. exact RustExtra2.contents_agree_all_ops. Qed.

(* remove leaves every other ENTRY (key object and value) untouched *)
Theorem C01_remove_keeps_other_entries : forall (V:Type) (m:AMap.amap V) z, m_sorted m ->
  forall e, In e (m_remove m z) <-> (In e m /\ kz (fst e) <> z).
Proof. exact RustExtra2.remove_keeps_other_entries. Qed.

Theorem C01_insert_keeps_other_entries : forall (V:Type) (m:AMap.amap V) k v, m_sorted m ->
  forall e, kz (fst e) <> kz k -> (In e (m_insert m k v) <-> In e m).
Proof. exact RustExtra2.insert_keeps_other_entries. Qed.

(* get_mut obtains a reference exactly when get finds the key, and does nothing otherwise *)
Theorem C01_get_mut_finds_what_get_finds : forall (V:Type) n (b:bstate V) z v, Good n b -> fits (n + 1) ->
  exists b' ok, b_get_mut_write b z v = Ok (b', ok) /\
    h_get (flatten b) z = Ok (if ok then m_get (contents (root b)) z else None) /\
    (ok = false -> b' = b).
Proof. exact RustExtra2.get_mut_finds_what_get_finds. Qed.

(* Histories of ANY length.  The theorems above are stated under fits (ops_weight ops), which
   counts every call (about 2.1e9 calls).  The same conclusions hold under a bound on the SIZE
   OF THE STATES instead ([run_small]: before each call, entries and arena slots + the weight of
   that call stay below about 2^31), whatever the number of calls; the old hypothesis implies the
   new one, read-only calls never grow the state, and 2^32 get calls are outside the old bound
   and inside the new one. *)
Section AnyLength.
Variable V : Type.

Theorem C01_history_of_any_length : forall c (b0 : bstate V) ops,
  b_new V c = Some b0 -> run_small b0 ops ->
  let b := fst (run b0 ops) in
  Inv b /\ rooms b /\ heap_of b (flatten b) /\ cap b = c /\
  (forall x, In x (snd (run b0 ops)) -> out_is_error x = false) /\
  (forallb (@abstract_op V) ops = true ->
     snd (run b0 ops) = snd (spec_run [] ops) /\ contents (root b) = fst (spec_run [] ops)).
Proof. exact (@AnyLength.run_any_length V). Qed.

Theorem C01_call_count_bound_implies_state_bound : forall c (b0 : bstate V) ops,
  4 <= c -> b_new V c = Some b0 -> fits (ops_weight ops) -> run_small b0 ops.
Proof. exact (@AnyLength.fits_implies_run_small V). Qed.

Theorem C01_any_number_of_reads : forall c (b0 : bstate V) ops reads,
  b_new V c = Some b0 -> run_small b0 ops -> forallb (@is_reader V) reads = true ->
  (forall o, In o reads -> step_small (fst (run b0 ops)) o) -> run_small b0 (ops ++ reads).
Proof. exact (@AnyLength.any_number_of_reads V). Qed.

Theorem C01_beyond_the_call_count_bound : forall c (b0 : bstate V) z, b_new V c = Some b0 ->
  let ops := repeat (@OGet V z) (N.to_nat 4294967296) in
  ~ fits (ops_weight ops) /\ run_small b0 ops /\ Inv (fst (run b0 ops)) /\
  (forall x, In x (snd (run b0 ops)) -> out_is_error x = false) /\
  snd (run b0 ops) = snd (spec_run [] ops) /\
  length (snd (run b0 ops)) = N.to_nat 4294967296.
Proof. exact (@AnyLength.beyond_old_bound V). Qed.

End AnyLength.
