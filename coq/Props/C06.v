(* C06 — node arenas: allocated slots equal reachable nodes; freed slots are reused.
   For every capacity >= 4 and every history (below `fits`), on the state reached: the ids
   of the nodes reachable from the root are pairwise distinct and are exactly the allocated
   slots of their arena (so allocated counts = numbers of reachable leaves / branches and
   no reachable node sits in a freed slot), the free list names every unallocated slot
   exactly once ([meta_ok]), the introspection calls agree with that structure, clear()
   leaves exactly one empty leaf, and storage never exceeds the largest number of nodes
   simultaneously live since construction or the last clear (ghost marks of [run_hw]).
   OBLIGATIONS: C06_allocated_equals_reachable C06_introspection_agrees C06_slots_never_exceed_high_water_mark C06_growth_only_when_free_list_empty C06_clear_leaves_one_leaf C06_nonvacuous C06_reachable_states_have_room *)
From BPT Require Import Common.Base Common.AMap Rust.Arena Rust.Tree Rust.Heap Rust.Readers Rust.Run
     Rust.InvDefs Rust.Repr Rust.Spec Rust.ReachDefs Rust.Bridge Rust.ValidAccept Rust.MiscProofs
     Rust.InsertProofs Rust.Reach Props.Reachable.
From BPT Require Extra.RustExtra.

Theorem C06_allocated_equals_reachable :
  forall (V : Type) (c : nat) (ops : list (op V)), 4 <= c -> fits (ops_weight ops) ->
    exists b, state_after c ops = Some b /\
      meta_ok (lmeta b) (leaf_ids (root b)) /\ meta_ok (bmeta b) (branch_ids (root b)) /\
      n_leaves (root b) = count_true (m_mask (lmeta b)) /\
      n_branches (root b) = count_true (m_mask (bmeta b)).
Proof.
  intros V c ops Hc F. destruct (@reachable_state V c ops Hc F) as (b & E & I & R & HO & _).
  exists b. split; [exact E|]. split; [apply (inv_leaves I)|]. split; [apply (inv_branches I)|].
  split; [apply n_leaves_eq_allocated | apply n_branches_eq_allocated]; assumption.
Qed.

Theorem C06_introspection_agrees :
  forall (V : Type) (c : nat) (ops : list (op V)), 4 <= c -> fits (ops_weight ops) ->
    exists b, state_after c ops = Some b /\ let h := flatten b in
      leaf_count h = Ok (n_leaves (root b)) /\
      count_nodes_in_tree h = Ok (n_leaves (root b), n_branches (root b)) /\
      leaf_sizes h = Ok (map (fun p => length (lkeys (snd p))) (leaves_of (root b))) /\
      is_leaf_root h = is_leaf (root b) /\
      allocated_leaf_count h = n_leaves (root b) /\ allocated_branch_count h = n_branches (root b) /\
      free_leaf_count h + allocated_leaf_count h = length (store (hleaves h)) /\
      free_branch_count h + allocated_branch_count h = length (store (hbranches h)).
Proof.
  intros V c ops Hc F. destruct (@reachable_state V c ops Hc F) as (b & E & I & R & HO & _).
  exists b. split; [exact E|]. cbv zeta. exact (introspection_agrees I HO R).
Qed.

Theorem C06_slots_never_exceed_high_water_mark :
  forall (V : Type) (c : nat) (ops : list (op V)), 4 <= c -> fits (ops_weight ops) ->
    exists b0, b_new V c = Some b0 /\
      let r := run_hw b0 (1, 0) ops in
      length (m_mask (lmeta (fst r))) <= fst (snd r) /\ length (m_mask (bmeta (fst r))) <= snd (snd r).
Proof. exact slots_bounded_new. Qed.

(* an arena grows only when its free list is empty: after an insert the storage length is
   at most max(old length, number of live nodes) *)
Theorem C06_growth_only_when_free_list_empty :
  forall (V : Type) (b : bstate V) k v, Inv b -> room (lmeta b) 1 -> room (bmeta b) (height (root b) + 2) ->
    exists b' old, b_insert b k v = Ok (b', old) /\
      length (m_mask (lmeta b')) <= Nat.max (length (m_mask (lmeta b))) (n_leaves (root b')) /\
      length (m_mask (bmeta b')) <= Nat.max (length (m_mask (bmeta b))) (n_branches (root b')).
Proof.
  intros V b k v I R1 R2. destruct (insert_inv k v I R1 R2) as (b' & old & E & _ & _ & _ & _ & A & B & _).
  exists b', old. repeat split; assumption.
Qed.

Theorem C06_clear_leaves_one_leaf :
  forall (V : Type) (b : bstate V), 4 <= cap b ->
    Inv (b_clear b) /\ contents (root (b_clear b)) = [] /\
    n_leaves (root (b_clear b)) = 1 /\ n_branches (root (b_clear b)) = 0 /\
    length (m_mask (lmeta (b_clear b))) = 1 /\ length (m_mask (bmeta (b_clear b))) = 0.
Proof.
  intros V b Hc. destruct (clear_inv b Hc) as (A & _ & B & _ & C & D & E & F).
  split; [exact A|]. split; [exact B|]. split; [exact C|]. split; [exact D|]. split; [exact E|exact F].
Qed.

Definition C06_nonvacuous := ReachExamples.ex_slots.

(* discharges the room hypotheses of C06_growth_only_when_free_list_empty for all reachable states *)
Theorem C06_reachable_states_have_room : forall (V : Type) (c : nat) (ops : list (op V)), 4 <= c -> fits (ops_weight ops + 1) ->
  exists b, state_after c ops = Some b /\ Inv b /\ rooms b /\
    room (lmeta b) 1 /\ room (bmeta b) (height (root b) + 2).
Proof. exact RustExtra.reachable_states_have_room. Qed.
