(* C08 -- Python iteration is sorted and complete; range(a, b) is exactly [a, b).
   "After any history, items(), keys() and values() of the pure-Python map yield all
   current entries once each in ascending key order. Called with (start_key, end_key),
   items/keys/values/range yield exactly the entries with start_key <= key < end_key (None
   meaning unbounded on that side) for endpoints present or absent, and nothing for an
   empty or inverted interval."

   This file contains only pinned statements, each closed by a lemma of Py/*.v.
   [pcontents s] is the in-order concatenation of the leaf entries of the map; by C07 it
   equals the reference dict's entries after every history.  The readers are the
   transcriptions of items / _find_leaf_for_key / _find_position_in_leaf and walk the leaf
   chain from self.leaves by object identity.  Quantification: every state satisfying the
   invariant (hence every state reached by any history), every pair of endpoints
   (option Z: None = unbounded), no relation between them assumed.
   OBLIGATIONS: C08_iteration_sorted_complete C08_range_is_half_open C08_in_range_meaning C08_empty_or_inverted_interval C08_after_any_history C08_reachable_states_invariant C08_nonvacuous C08_empty_or_inverted_interval_all *)
From Coq Require Import List Arith ZArith NArith Lia Bool.
From BPT Require Import Common.Base Common.AMap Rust.Tree Rust.InvDefs
  Py.Tree Py.Run Py.Inv Py.Spec Py.ReaderProofs Py.ReachFinal Py.Corollaries.
From BPT Require Import Extra.PyExtra.
Import ListNotations.

(* items(), keys(), values(): all entries, each once, strictly ascending by key *)
Theorem C08_iteration_sorted_complete : forall s, PyInv s ->
  py_items s None None = Ok (pcontents s) /\
  py_keys s None None = Ok (map fst (pcontents s)) /\
  py_values s None None = Ok (map snd (pcontents s)) /\
  m_sorted (pcontents s).
Proof. exact iteration_sorted_complete. Qed.

(* items/range/keys/values(start, end): exactly the entries whose key passes in_range *)
Theorem C08_range_is_half_open : forall s a b, PyInv s ->
  py_items s a b = Ok (filter (fun e => in_range a b (kz (fst e))) (pcontents s)) /\
  py_range s a b = Ok (filter (fun e => in_range a b (kz (fst e))) (pcontents s)) /\
  py_keys s a b = Ok (map fst (filter (fun e => in_range a b (kz (fst e))) (pcontents s))) /\
  py_values s a b = Ok (map snd (filter (fun e => in_range a b (kz (fst e))) (pcontents s))).
Proof. exact range_is_half_open. Qed.

(* in_range a b z  is  start <= z < end, None meaning unbounded on that side *)
Theorem C08_in_range_meaning : forall a b z,
  in_range a b z = true <->
  (match a with Some x => (x <= z)%Z | None => True end) /\
  (match b with Some y => (z < y)%Z | None => True end).
Proof. exact in_range_spec. Qed.

Theorem C08_empty_or_inverted_interval : forall s x y, PyInv s -> (y <= x)%Z ->
  py_items s (Some x) (Some y) = Ok [].
Proof. exact empty_or_inverted_interval. Qed.

(* "after any history": every map of every reached world *)
Theorem C08_after_any_history : forall ops n s a b,
  In (n, s) (maps (fst (run false w0 ops))) ->
  py_items s a b = Ok (m_items (pcontents s) a b) /\ m_sorted (pcontents s).
Proof. exact items_after_any_history. Qed.

Theorem C08_reachable_states_invariant : forall ops n s,
  In (n, s) (maps (fst (run false w0 ops))) -> PyInv s.
Proof. exact py_reachable_inv. Qed.

(* non-vacuity: three-level states reached by a history satisfy PyInv; the readers are
   evaluated on one of them with present, absent, inverted, empty and None endpoints *)
Definition C08_nonvacuous := (demo_heights, demo_states_inv, demo_outputs_tail, demo_readers).

(* items, range, keys and values all yield nothing for an empty or inverted interval *)
Theorem C08_empty_or_inverted_interval_all : forall s x y, PyInv s -> (y <= x)%Z ->
  py_items s (Some x) (Some y) = Ok [] /\ py_range s (Some x) (Some y) = Ok [] /\
  py_keys s (Some x) (Some y) = Ok [] /\ py_values s (Some x) (Some y) = Ok [].
Proof. exact PyExtra.empty_or_inverted_interval_all. Qed.
