(* C13 — the C extension is memory-safe and balances reference counts.

   Subject: the array-level model coq/C/{Node,Tree,Run}.v of the three C files (every
   node_get_x / node_set_x and every access to the temporary split arrays goes through a
   bounds-checked index operation that answers [UB site] outside the array; dereferencing
   a NULL or wrongly typed slot answers [Panic site]; every Py_INCREF / Py_DECREF /
   Py_XDECREF / Py_CLEAR site updates a ghost reference-count map), tied to the code by
   the correspondence check (refcount deltas of every tracked object compared after every
   call, ASan build, subprocess exit status).

   PARTIAL BY NATURE, and labelled so: (1) use-after-free of NODE memory cannot be
   exhibited by this model, in which a child node is contained in its parent's slot
   rather than referred to by an address into a heap that could be freed (what IS proved
   about the node blocks - C/NodeMem.v, last section of this file - is the accounting:
   node_destroy instrumented with the log of the addresses given to cache_aligned_free
   frees every node of the tree exactly once, nothing else, each node after its whole
   subtree, and before the tree dies the nodes are exactly the blocks node_create handed
   out; the implementation side is tied to it by the node-memory oracle of
   harness/c/c_harness.py through the counter hook of /repo commit 5ca51f7 (_verif_counters);
   the temporary PyMem_Malloc arrays of the split paths are plain local lists in the
   model, which has no allocation events for them: only that oracle counts them); (2) the
   allocation protocol of the tree OBJECT (tp_alloc / tp_free / GC tracking, what makes a
   Python subclass instance — like the package's wrapper — safe to create and destroy)
   lives in CPython and is not modelled.  Both are covered only by the correspondence
   runs: every history is executed directly, through `class S(BPlusTree): pass` and
   through the package wrapper, in a subprocess whose abnormal exit is a violation, and
   under AddressSanitizer in the thorough tier.

   This file contains only pinned statements, each closed by a lemma of coq/C/.
   OBLIGATIONS: C13_no_out_of_bounds C13_rc_balanced C13_all_released C13_release_from_any_state C13_dealloc C13_capacity_rejected C13_capacity_accepted_range C13_capacity_truncation_refuted C13_legacy_leaks_refuted C13_nonvacuous C13_capacity_stored_exactly C13_free_log_conservative C13_free_log_conservative_dealloc C13_dealloc_free_log C13_no_double_free_no_node_leak C13_children_freed_first C13_freed_addresses_are_nodes C13_every_node_address_has_a_node C13_node_ids_allocated C13_reachable_node_ids C13_reachable_dealloc_node_memory C13_finish_node_memory C13_node_memory_nonvacuous *)
From Coq Require Import List ZArith NArith Bool.
From BPT Require Import Common.Base Common.AMap Rust.Tree C.Node C.Tree C.Run C.Abs C.PInv
  C.Spec C.StepDefs C.TreeProofs C.Dealloc C.StepAll C.Examples C.Legacy.
From BPT Require Import Extra.CExtra C.NodeMem C.NodeMemProofs.
From Coq Require Import Permutation.
Import ListNotations.

(* For every history, at every capacity given to the constructor: no call answers an
   out-of-bounds index (UOOB), a NULL / wrongly typed slot dereference (UNullDeref) or
   runs out of fuel — across leaf splits, branch splits, root splits, overwrites,
   deletions, iterators and the wrapper methods. *)
Theorem C13_no_out_of_bounds :
  forall (capacity : Z) (ops : list op),
    forallb (fun x => negb (is_mem_error x)) (snd (run (fst (st_init capacity)) ops)) = true.
Proof. exact c_no_oob. Qed.

(* At every call boundary of every history, the number of references the extension holds
   on an object (taken with Py_INCREF and not yet given back) equals the number of live
   key/value slots holding that object — in the tree and in the copy made by copy() —
   plus the references just handed to the caller in the result (the value returned by
   t[k], the keys / tuples produced by iteration, ...): nothing is leaked or over-released
   by leaf splits, branch splits (the separator handed up is an owned reference that the
   parent stores without a further INCREF), overwrites and deletions. *)
Theorem C13_rc_balanced :
  forall (capacity : Z) (ops : list op) (o : N),
    let s := fst (run (fst (st_init capacity)) ops) in
    rc_get (st_rc s) o = cnt (orefs (st_tree s) ++ orefs (st_copy s) ++ map kid (st_held s)) o.
Proof. exact c_rc_balanced. Qed.

(* Once the caller has dropped its last result, the copy and the tree (BPlusTree_dealloc:
   tp_clear, then node_destroy), every key and value object that passed through the tree
   is released: the extension holds no reference on any object, and deallocation itself
   stays inside the arrays. *)
Theorem C13_all_released :
  forall (capacity : Z) (ops : list op),
    exists rc, finish (fst (run (fst (st_init capacity)) ops)) = Ok rc /\
               forall o, rc_get rc o = 0%Z.
Proof. exact c_all_released. Qed.

Theorem C13_release_from_any_state :
  forall (s : cstate) (a : astate), R s a ->
    exists rc, finish s = Ok rc /\ forall o, rc_get rc o = 0%Z.
Proof. exact finish_balanced. Qed.

(* BPlusTree_dealloc on a tree object satisfying the invariant gives back exactly the
   references held in its live slots *)
Theorem C13_dealloc :
  forall (t : ctree) (rc : rcmap), CInv t ->
    exists rc', tree_dealloc t rc = Ok rc' /\
      (forall o, rc_get rc' o = rc_get rc o - cnt (prefs (abs (root t))) o)%Z.
Proof. exact tree_dealloc_ok. Qed.

(* A capacity the node layout (uint16_t num_keys / capacity) cannot represent — or one
   below the minimum — is rejected (ValueError), never silently truncated ... *)
Theorem C13_capacity_rejected :
  forall (capacity : Z), (capacity < 4 \/ 65535 < capacity)%Z <-> tree_init capacity = None.
Proof. exact tree_init_rejects. Qed.

(* ... and every accepted capacity yields a tree object satisfying the invariant, on which
   all the theorems above apply (in particular at 65535) *)
Theorem C13_capacity_accepted_range :
  forall (capacity : Z) (t : ctree), tree_init capacity = Some t ->
    CInv t /\ tree_map t = [] /\ modc t = 0.
Proof. exact tree_init_ok. Qed.

(* the constructor as it was before the repair (capacity narrowed to 16 bits unchecked)
   violates C13_no_out_of_bounds: capacity 65536, first insertion *)
Theorem C13_capacity_truncation_refuted :
  snd (step (legacy_state 65536) (OSet (exK 1) (exV 1))) = UOOB 4.
Proof. exact c_capacity_truncation_refuted. Qed.

(* the two reference-count defects of the sources before the repair (leaf split INCREF'ing
   the moved items, node_insert_branch INCREF'ing the owned separator) violate
   C13_rc_balanced: after one split / one branch insertion the count of an object exceeds
   the number of slots holding it, while the repaired code keeps them equal (C/Legacy.v) *)
Definition C13_legacy_leaks_refuted := (c_leaf_split_leak_refuted, c_branch_insert_leak_refuted).

Definition C13_nonvacuous := (ex_all_released, ex_shape, c_capacity_rejected_example).

(* an accepted capacity is stored exactly as given (no truncation), and the root leaf's slot array has 2*capacity slots *)
Theorem C13_capacity_stored_exactly : forall (capacity : Z) (t : ctree), tree_init capacity = Some t ->
  Z.of_nat (tcap t) = capacity /\ ncap (root t) = tcap t /\ nk (root t) = 0 /\
  length (data (root t)) = 2 * tcap t.
Proof. exact CExtra.capacity_stored_exactly. Qed.

(* ------------------------------------------------------------------ *)
(* Node-memory accounting (C/NodeMem.v, C/NodeMemProofs.v): the BPlusNode blocks themselves.
   [node_ids n] = the addresses of all nodes of the tree below n;
   [node_destroy_g] / [tree_dealloc_g] = node_destroy / BPlusTree_dealloc (tp_clear, then
   node_destroy) with the log of the addresses passed to cache_aligned_free, in call order. *)

(* the instrumentation is conservative: forgetting the log gives the functions the other
   theorems of this file are about - on every input, including the failing ones *)
Theorem C13_free_log_conservative :
  forall (fuel : nat) (st : rcmap * list N) (n : cnode),
    res_fst (node_destroy_g fuel st n) = node_destroy fuel (fst st) n.
Proof. exact node_destroy_g_conservative. Qed.

Theorem C13_free_log_conservative_dealloc :
  forall (t : ctree) (rc : rcmap), res_fst (tree_dealloc_g t rc) = tree_dealloc t rc.
Proof. exact tree_dealloc_g_conservative. Qed.

(* BPlusTree_dealloc on a tree object satisfying the invariant: the log is the children-first
   enumeration of the node addresses *)
Theorem C13_dealloc_free_log :
  forall (t : ctree) (rc : rcmap), CInv t ->
    exists rc', tree_dealloc_g t rc = Ok (rc', free_order (root t)) /\ tree_dealloc t rc = Ok rc'.
Proof. exact tree_dealloc_g_ok. Qed.

(* no block is freed twice, none is leaked, nothing else is freed *)
Theorem C13_no_double_free_no_node_leak :
  forall (t : ctree) (rc rc' : rcmap) (fr : list N), CInv t ->
    tree_dealloc_g t rc = Ok (rc', fr) ->
    NoDup fr /\ Permutation fr (node_ids (root t)).
Proof. exact dealloc_frees_each_node_once. Qed.

(* in the order of the cache_aligned_free calls every node comes after all other nodes of
   its subtree, and nowhere else: a node is read only by the node_destroy call that ends by
   freeing it, so no block is read after it was freed *)
Theorem C13_children_freed_first :
  forall (t : ctree) (rc rc' : rcmap) (fr : list N) (m : cnode), CInv t ->
    tree_dealloc_g t rc = Ok (rc', fr) -> subnode m (root t) ->
    exists l1 l2 : list N, fr = l1 ++ (nid m :: l2) /\
      (forall x, In x (node_ids m) -> x <> nid m -> In x l1) /\
      ~ In (nid m) l1 /\ ~ In (nid m) l2.
Proof. exact dealloc_children_first. Qed.

Theorem C13_freed_addresses_are_nodes :
  forall (t : ctree) (rc rc' : rcmap) (fr : list N) (x : N), CInv t ->
    tree_dealloc_g t rc = Ok (rc', fr) -> In x fr ->
    In x (node_ids (root t)) /\ x <> 0%N /\ (x < next_id t)%N.
Proof. exact dealloc_frees_only_nodes. Qed.

(* the quantifier "subnode m (root t)" reaches every node address *)
Theorem C13_every_node_address_has_a_node :
  forall (cap : nat) (n : cnode), wf cap n ->
    forall x, In x (node_ids n) -> exists m, subnode m n /\ nid m = x.
Proof. exact wf_subnode_all. Qed.

(* allocation side: distinct, non-NULL, below the allocator's next address *)
Theorem C13_node_ids_allocated :
  forall (t : ctree), CInv t ->
    NoDup (node_ids (root t)) /\ ~ In 0%N (node_ids (root t)) /\
    (forall x, In x (node_ids (root t)) -> (x < next_id t)%N).
Proof. exact node_ids_allocated. Qed.

(* ... and in every reachable state of every history, for the tree and for the copy: the
   nodes are EXACTLY the blocks node_create handed out for that tree object (addresses
   1 .. next_id-1): no node is freed, or lost, before the tree dies *)
Theorem C13_reachable_node_ids :
  forall (capacity : Z) (ops : list op) (t : ctree),
    let s := fst (run (fst (st_init capacity)) ops) in
    st_tree s = Some t \/ st_copy s = Some t ->
    NoDup (node_ids (root t)) /\ ~ In 0%N (node_ids (root t)) /\
    (forall x, In x (node_ids (root t)) -> (x < next_id t)%N) /\
    length (node_ids (root t)) = N.to_nat (next_id t) - 1 /\
    Permutation (node_ids (root t)) (nrange 1 (next_id t)).
Proof. exact reachable_node_ids. Qed.

(* deallocating the tree or the copy of any reachable state (this is also what WCopy does
   to the previous copy in the middle of a history) *)
Theorem C13_reachable_dealloc_node_memory :
  forall (capacity : Z) (ops : list op) (t : ctree) (rc : rcmap),
    let s := fst (run (fst (st_init capacity)) ops) in
    st_tree s = Some t \/ st_copy s = Some t ->
    exists rc' fr, tree_dealloc_g t rc = Ok (rc', fr) /\ tree_dealloc t rc = Ok rc' /\
      NoDup fr /\ Permutation fr (node_ids (root t)) /\
      length fr = N.to_nat (next_id t) - 1 /\
      (forall m, subnode m (root t) ->
         exists l1 l2 : list N, fr = l1 ++ (nid m :: l2) /\
           (forall x, In x (node_ids m) -> x <> nid m -> In x l1) /\
           ~ In (nid m) l1 /\ ~ In (nid m) l2).
Proof. exact reachable_dealloc_node_memory. Qed.

(* the teardown at the end of every history, with the free logs of the copy and of the tree *)
Theorem C13_finish_node_memory :
  forall (capacity : Z) (ops : list op),
    let s := fst (run (fst (st_init capacity)) ops) in
    exists rc frc frt, finish_g s = Ok (rc, frc, frt) /\ finish s = Ok rc /\
      Permutation frc (match st_copy s with Some c => node_ids (root c) | None => [] end) /\
      Permutation frt (match st_tree s with Some t => node_ids (root t) | None => [] end) /\
      NoDup frc /\ NoDup frt.
Proof. exact finish_g_node_memory. Qed.

(* a three-level tree (root branch, two branches, seven leaves, the first one empty):
   addresses, free log, checks, and the teardown of a whole history - evaluated in Coq *)
Definition C13_node_memory_nonvacuous :=
  (ex_three_levels, ex_node_ids, ex_free_log, ex_free_log_checks, ex_finish_logs).
