(* C13 — the C extension is memory-safe and balances reference counts.

   Subject: the array-level model coq/C/{Node,Tree,Run}.v of the three C files (every
   node_get_x / node_set_x and every access to the temporary split arrays goes through a
   bounds-checked index operation that answers [UB site] outside the array; dereferencing
   a NULL or wrongly typed slot answers [Panic site]; every Py_INCREF / Py_DECREF /
   Py_XDECREF / Py_CLEAR site updates a ghost reference-count map), tied to the code by
   the correspondence check (refcount deltas of every tracked object compared after every
   call, ASan build, subprocess exit status).

   PARTIAL BY NATURE, and labelled so: (1) use-after-free of NODE memory cannot be
   exhibited by this model, in which a child node is contained in its parent's slot
   rather than referred to by an address into a heap that could be freed; (2) the
   allocation protocol of the tree OBJECT (tp_alloc / tp_free / GC tracking, what makes a
   Python subclass instance — like the package's wrapper — safe to create and destroy)
   lives in CPython and is not modelled.  Both are covered only by the correspondence
   runs: every history is executed directly, through `class S(BPlusTree): pass` and
   through the package wrapper, in a subprocess whose abnormal exit is a violation, and
   under AddressSanitizer in the thorough tier.

   This file contains only pinned statements, each closed by a lemma of coq/C/.
   OBLIGATIONS: C13_no_out_of_bounds C13_rc_balanced C13_all_released C13_release_from_any_state C13_dealloc C13_capacity_rejected C13_capacity_accepted_range C13_capacity_truncation_refuted C13_legacy_leaks_refuted C13_nonvacuous C13_capacity_stored_exactly *)
From Coq Require Import List ZArith NArith Bool.
From BPT Require Import Common.Base Common.AMap Rust.Tree C.Node C.Tree C.Run C.Abs C.PInv
  C.Spec C.StepDefs C.TreeProofs C.Dealloc C.StepAll C.Examples C.Legacy.
From BPT Require Import Extra.CExtra.
Import ListNotations.

(* For every history, at every capacity given to the constructor: no call answers an
   out-of-bounds index (UOOB), a NULL / wrongly typed slot dereference (UNullDeref) or
   runs out of fuel — across leaf splits, branch splits, root splits, overwrites,
   deletions, iterators and the wrapper methods. *)
Theorem C13_no_out_of_bounds :
  forall (capacity : Z) (ops : list op),
    forallb (fun x => negb (is_mem_error x)) (snd (run (fst (st_init capacity)) ops)) = true.
Proof. exact c_no_oob. Qed.

(* At every call boundary of every history, the number of references the extension holds
   on an object (taken with Py_INCREF and not yet given back) equals the number of live
   key/value slots holding that object — in the tree and in the copy made by copy() —
   plus the references just handed to the caller in the result (the value returned by
   t[k], the keys / tuples produced by iteration, ...): nothing is leaked or over-released
   by leaf splits, branch splits (the separator handed up is an owned reference that the
   parent stores without a further INCREF), overwrites and deletions. *)
Theorem C13_rc_balanced :
  forall (capacity : Z) (ops : list op) (o : N),
    let s := fst (run (fst (st_init capacity)) ops) in
    rc_get (st_rc s) o = cnt (orefs (st_tree s) ++ orefs (st_copy s) ++ map kid (st_held s)) o.
Proof. exact c_rc_balanced. Qed.

(* Once the caller has dropped its last result, the copy and the tree (BPlusTree_dealloc:
   tp_clear, then node_destroy), every key and value object that passed through the tree
   is released: the extension holds no reference on any object, and deallocation itself
   stays inside the arrays. *)
Theorem C13_all_released :
  forall (capacity : Z) (ops : list op),
    exists rc, finish (fst (run (fst (st_init capacity)) ops)) = Ok rc /\
               forall o, rc_get rc o = 0%Z.
Proof. exact c_all_released. Qed.

Theorem C13_release_from_any_state :
  forall (s : cstate) (a : astate), R s a ->
    exists rc, finish s = Ok rc /\ forall o, rc_get rc o = 0%Z.
Proof. exact finish_balanced. Qed.

(* BPlusTree_dealloc on a tree object satisfying the invariant gives back exactly the
   references held in its live slots *)
Theorem C13_dealloc :
  forall (t : ctree) (rc : rcmap), CInv t ->
    exists rc', tree_dealloc t rc = Ok rc' /\
      (forall o, rc_get rc' o = rc_get rc o - cnt (prefs (abs (root t))) o)%Z.
Proof. exact tree_dealloc_ok. Qed.

(* A capacity the node layout (uint16_t num_keys / capacity) cannot represent — or one
   below the minimum — is rejected (ValueError), never silently truncated ... *)
Theorem C13_capacity_rejected :
  forall (capacity : Z), (capacity < 4 \/ 65535 < capacity)%Z <-> tree_init capacity = None.
Proof. exact tree_init_rejects. Qed.

(* ... and every accepted capacity yields a tree object satisfying the invariant, on which
   all the theorems above apply (in particular at 65535) *)
Theorem C13_capacity_accepted_range :
  forall (capacity : Z) (t : ctree), tree_init capacity = Some t ->
    CInv t /\ tree_map t = [] /\ modc t = 0.
Proof. exact tree_init_ok. Qed.

(* the constructor as it was before the repair (capacity narrowed to 16 bits unchecked)
   violates C13_no_out_of_bounds: capacity 65536, first insertion *)
Theorem C13_capacity_truncation_refuted :
  snd (step (legacy_state 65536) (OSet (exK 1) (exV 1))) = UOOB 4.
Proof. exact c_capacity_truncation_refuted. Qed.

(* the two reference-count defects of the sources before the repair (leaf split INCREF'ing
   the moved items, node_insert_branch INCREF'ing the owned separator) violate
   C13_rc_balanced: after one split / one branch insertion the count of an object exceeds
   the number of slots holding it, while the repaired code keeps them equal (C/Legacy.v) *)
Definition C13_legacy_leaks_refuted := (c_leaf_split_leak_refuted, c_branch_insert_leak_refuted).

Definition C13_nonvacuous := (ex_all_released, ex_shape, c_capacity_rejected_example).

(* an accepted capacity is stored exactly as given (no truncation), and the root leaf's slot array has 2*capacity slots *)
Theorem C13_capacity_stored_exactly : forall (capacity : Z) (t : ctree), tree_init capacity = Some t ->
  Z.of_nat (tcap t) = capacity /\ ncap (root t) = tcap t /\ nk (root t) = 0 /\
  length (data (root t)) = 2 * tcap t.
Proof. exact CExtra.capacity_stored_exactly. Qed.
