(* C02 — iteration yields every entry exactly once in ascending key order.
   For every capacity >= 4 and every history (below the model bound `fits`), on the state
   reached: items(), items_fast(), keys(), values(), slice() yield exactly the contents
   (a list strictly ascending by key, each key with its current value); first()/last() are
   its extremes; for ANY number of iterators of any kinds advanced in ANY interleaving, the
   n-th next() of each one is the n-th entry of the contents and None forever once it is
   exhausted (spec_steps: every iterator keeps its own position; iterators only read the
   map, so they cannot influence each other).
   OBLIGATIONS: C02_full_iteration C02_interleaved_partial_iteration C02_exhausted_stays_none C02_contents_strictly_ascending C02_nonvacuous C02_item_iterator_fused C02_fast_iterator_fused C02_range_iterator_fused *)
From BPT Require Import Common.Base Common.AMap Rust.Arena Rust.Tree Rust.Heap Rust.Readers Rust.Run
     Rust.InvDefs Rust.Repr Rust.Spec Rust.ReachDefs Rust.TreeFactsI Rust.ReadersIter Rust.Reach Props.Reachable.
From BPT Require Extra.RustExtra2.
From BPT Require Extra.RustExtra.

Theorem C02_full_iteration :
  forall (V : Type) (c : nat) (ops : list (op V)), 4 <= c -> fits (ops_weight ops) ->
    exists b, state_after c ops = Some b /\
      let h := flatten b in let m := contents (root b) in
      items h = Ok m /\ items_fast h = Ok m /\ slice h = Ok m /\
      keys h = Ok (map fst m) /\ values h = Ok (map snd m) /\
      first h = Ok (hd_error m) /\ last h = Ok (last_opt m).
Proof.
  intros V c ops Hc F. destruct (@reachable_state V c ops Hc F) as (b & E & I & R & HO & _).
  exists b. split; [exact E|]. cbv zeta. repeat split.
  - exact (items_spec I HO). - exact (items_fast_spec I HO). - exact (items_spec I HO).
  - exact (keys_spec I HO). - exact (values_spec I HO). - exact (first_spec I HO). - exact (last_spec I HO).
Qed.

Theorem C02_interleaved_partial_iteration :
  forall (V : Type) (c : nat) (ops : list (op V)) kinds steps, 4 <= c -> fits (ops_weight ops) ->
    exists b, state_after c ops = Some b /\
      step b (OIter kinds steps)
      = (b, UItems (spec_steps kinds (contents (root b)) (map (fun _ => 0) kinds) steps)).
Proof.
  intros V c ops kinds steps Hc F. destruct (@reachable_state V c ops Hc F) as (b & E & I & R & HO & _).
  exists b. split; [exact E|]. cbn [step]. rewrite (iter_op_spec I HO). reflexivity.
Qed.

(* the specification of a single iterator: entries in order, then None forever *)
Theorem C02_exhausted_stays_none :
  forall (V : Type) (k : ikind) (m : amap V) pos n,
    length m <= pos -> spec_take k m pos n = repeat None n /\ spec_advance m pos n = pos.
Proof.
  intros V k m pos n H. revert pos H. induction n as [|n IH]; intros pos H; cbn [spec_take spec_advance repeat].
  - split; reflexivity.
  - assert (E : nth_error m pos = None) by (apply nth_error_None; exact H).
    rewrite E. cbn [project]. destruct (IH pos H) as [A B]. rewrite A, B. split; reflexivity.
Qed.

Theorem C02_contents_strictly_ascending :
  forall (V : Type) (c : nat) (ops : list (op V)), 4 <= c -> fits (ops_weight ops) ->
    exists b, state_after c ops = Some b /\ m_sorted (contents (root b)).
Proof.
  intros V c ops Hc F. destruct (@reachable_state V c ops Hc F) as (b & E & I & _).
  exists b. split; [exact E|]. destruct (inv_shape I) as [h Sh].
  eapply contents_sorted; [apply (inv_ord I)|exact Sh].
Qed.

Definition C02_nonvacuous := ReachExamples.ex_agree.

(* on EVERY heap: an ItemIterator (items/keys/values) that returned None keeps returning None and stays in the same state *)
Theorem C02_item_iterator_fused : forall (V : Type) (h : heap V) s s',
  item_next h s = Ok (s', None) -> item_next h s' = Ok (s', None).
Proof. exact RustExtra.item_iterator_fused. Qed.

Theorem C02_fast_iterator_fused : forall (V:Type) (h:heap V) s s',
  fast_next h s = Ok (s', None) -> fast_next h s' = Ok (s', None).
Proof. exact RustExtra2.fast_iterator_fused. Qed.

Theorem C02_range_iterator_fused : forall (V:Type) (h:heap V) s s',
  range_next h s = Ok (s', None) -> range_next h s' = Ok (s', None).
Proof. exact RustExtra2.range_iterator_fused. Qed.
