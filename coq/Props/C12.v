(* C12 — the C extension mapping behaves like dict; iterators fail fast on mutation.

   Subject: the array-level model coq/C/{Node,Tree,Run}.v of
   /repo/python/bplustree_c_src/{node_ops,tree_ops,bplustree_module}.c and of the wrapper
   class BPlusTreeMap of /repo/python/bplustree/__init__.py (tied to the code by the
   correspondence check: harness/c/c_harness.py vs extract/c_driver.ml, state dumps
   compared after every call).  Keys are pairs (position in the total order, object
   identity): what fast_compare_lt/eq can observe of int, str and user-defined totally
   ordered keys is exactly the order position, so one theorem covers the three key
   representations; values are object identities.  Quantification: every capacity the
   constructor is given (a C int, as Z), every finite history of calls.

   This file contains only pinned statements, each closed by a lemma of coq/C/.
   OBLIGATIONS: C12_history_refines_dict C12_step_refines C12_setitem C12_delitem C12_getitem C12_contains C12_len C12_iteration_sorted C12_iter_fail_fast C12_modification_makes_iterators_stale C12_iter_new C12_iter_nth C12_nonvacuous C12_reachable_states_related C12_reachable_tree_invariant C12_reachable_iterators C12_history_iteration_sorted C12_any_modification_then_next_raises C12_modc_monotone C12_keys_items_whole_list C12_wrapper_update C12_wrapper_clear C12_wrapper_copy *)
From Coq Require Import List ZArith NArith Bool.
From BPT Require Import Common.Base Common.AMap Rust.Tree C.Node C.Tree C.Run C.Abs C.PInv
  C.IterDefs C.Spec C.StepDefs C.StepCore C.TreeProofs C.IterProofs C.StepAll C.Examples.
From BPT Require Import Extra.CExtra.
Import ListNotations.

(* Any sequence of item assignment, lookup, deletion, membership test, len, keys(), items(),
   iteration (whole-list and step-by-step through iterator handles) and of the wrapper
   methods get, values, pop, popitem, setdefault, update, copy, clear, capacity — starting
   with the constructor call — answers exactly what the specification C/Spec.v answers:
   dict semantics on the sorted association list (KeyError for absent keys, iteration in
   ascending key order, the key object stored first is kept on overwrite), ValueError from
   the constructor for a capacity outside 4..65535, RuntimeError from next() on an iterator
   created before the last modification, StopIteration after the last entry. *)
Theorem C12_history_refines_dict :
  forall (capacity : Z) (ops : list op),
    snd (st_init capacity) :: snd (run (fst (st_init capacity)) ops) =
    snd (a_init capacity) :: snd (spec_run (fst (a_init capacity)) ops).
Proof. exact c_refines_dict. Qed.

(* one call, from any state related to an abstract state: same answer, relation kept *)
Theorem C12_step_refines :
  forall (s : cstate) (a : astate) (o : op), R s a ->
    R (fst (step s o)) (fst (spec_step a o)) /\ snd (step s o) = snd (spec_step a o).
Proof. exact step_refines. Qed.

(* t[k] = v on a tree object satisfying the invariant: succeeds, keeps the invariant, the
   entries become m_insert of the entries, the modification count grows *)
Theorem C12_setitem :
  forall (t : ctree) (rc : rcmap) (k v : key), CInv t ->
    exists t' rc', tree_insert t rc k v = Ok (t', rc') /\ CInv t' /\
      tree_map t' = m_insert (tree_map t) k v /\
      tcap t' = tcap t /\ modc t' = S (modc t) /\
      (forall o, rc_get rc' o = rc_get rc o + cnt (prefs (abs (root t'))) o - cnt (prefs (abs (root t))) o)%Z.
Proof. exact tree_insert_ok. Qed.

(* del t[k]: false = KeyError, exactly when the key is absent; nothing is rebalanced but
   the invariant (which has no occupancy bound) is kept *)
Theorem C12_delitem :
  forall (t : ctree) (rc : rcmap) (z : Z), CInv t ->
    exists t' rc' b, tree_delitem t rc z = Ok (t', rc', b) /\ CInv t' /\
      tree_map t' = m_remove (tree_map t) z /\
      b = is_some (m_get (tree_map t) z) /\
      tcap t' = tcap t /\ modc t' = (if b then S (S (modc t)) else modc t) /\
      (forall o, rc_get rc' o = rc_get rc o + cnt (prefs (abs (root t'))) o - cnt (prefs (abs (root t))) o)%Z.
Proof. exact tree_delitem_ok. Qed.

(* t[k]: the stored value with a new reference, or None = KeyError *)
Theorem C12_getitem :
  forall (t : ctree) (rc : rcmap) (z : Z), CInv t ->
    tree_get t rc z =
      Ok (match m_get (tree_map t) z with Some v => (incref rc v, Some v) | None => (rc, None) end).
Proof. exact tree_get_ok. Qed.

Theorem C12_contains :
  forall (t : ctree) (rc : rcmap) (z : Z), CInv t ->
    exists rc', tree_contains t rc z = Ok (rc', is_some (m_get (tree_map t) z)) /\
      forall o, rc_get rc' o = rc_get rc o.
Proof. exact tree_contains_ok. Qed.

Theorem C12_len : forall (t : ctree), CInv t -> tree_length t = length (tree_map t).
Proof. exact tree_length_ok. Qed.

(* the entries of a tree object are strictly ascending by key: keys(), items() and
   iteration, which hand out the entries in list order (C12_iter_nth), are sorted *)
Theorem C12_iteration_sorted : forall (t : ctree), CInv t -> m_sorted (tree_map t).
Proof. exact CInv_sorted. Qed.

(* Advancing an iterator after the tree was modified raises RuntimeError instead of
   reading stale nodes: whenever the stamp differs from the modification count, next()
   answers RuntimeError, the iterator and the reference counts are unchanged — for ANY
   tree state whatsoever (no invariant is assumed: no node is looked at). *)
Theorem C12_iter_fail_fast :
  forall (t : ctree) (rc : rcmap) (it : citer),
    it_stamp it <> modc t -> iter_next t rc it = Ok (it, rc, NRuntimeError).
Proof. exact iter_fail_fast. Qed.

(* ... and every successful assignment or deletion does change the modification count
   (it only grows), so an iterator created before it is stale afterwards *)
Theorem C12_modification_makes_iterators_stale :
  forall (t : ctree) (rc : rcmap) (it : citer), CInv t -> it_stamp it <= modc t ->
    (forall k v t' rc', tree_insert t rc k v = Ok (t', rc') -> it_stamp it <> modc t') /\
    (forall z t' rc', tree_delitem t rc z = Ok (t', rc', true) -> it_stamp it <> modc t').
Proof.
  intros t rc it I H. split.
  - intros k v t' rc' E. destruct (tree_insert_ok rc k v I) as (t2 & rc2 & E2 & _ & _ & _ & Em & _).
    rewrite E in E2. inversion E2; subst. rewrite Em. apply PeanoNat.Nat.lt_neq. auto with arith.
  - intros z t' rc' E. destruct (tree_delitem_ok rc z I) as (t2 & rc2 & b & E2 & _ & _ & _ & _ & Em & _).
    rewrite E in E2. inversion E2; subst. rewrite Em. apply PeanoNat.Nat.lt_neq. auto with arith.
Qed.

(* keys() / iter() / items(): a new iterator stands before the first entry *)
Theorem C12_iter_new :
  forall (t : ctree) (inc : bool), CInv t ->
    exists it, iter_new t inc = Ok it /\ it_inc it = inc /\ it_stamp it = modc t /\
      it_at (abs (root t)) (it_cur it) (it_idx it) 0.
Proof. exact iter_new_ok. Qed.

(* on a tree that was not modified since the iterator was created, an iterator standing at
   position p hands out the p-th entry of the sorted entry list (new references to the key,
   resp. key and value), whatever empty leaves lie in between, and moves to p+1; at the end
   it answers StopIteration and stays there *)
Theorem C12_iter_nth :
  forall (t : ctree) (rc : rcmap) (it : citer) (p : nat), CInv t ->
    it_stamp it = modc t -> it_at (abs (root t)) (it_cur it) (it_idx it) p ->
    exists it', iter_next t rc it =
        Ok (it', expected_rc rc (expected_out (tree_map t) (it_inc it) p),
            expected_out (tree_map t) (it_inc it) p) /\
      it_inc it' = it_inc it /\ it_stamp it' = it_stamp it /\
      it_at (abs (root t)) (it_cur it') (it_idx it')
            (if Nat.ltb p (length (tree_map t)) then S p else p).
Proof. exact iter_next_ok. Qed.

(* the statements are not vacuous: a concrete history with splits on two levels, an
   emptied leaf, an overwrite through an equal key object, a stale and a surviving
   iterator and every wrapper method, evaluated in Coq *)
Definition C12_nonvacuous := (ex_matches_spec, ex_keeps_first_key, ex_fail_fast, ex_shape).

(* every state reached by a history is related (R) to the specification state: this discharges the hypotheses R / CInv / it_stamp <= modc / it_at of the per-operation theorems above for all reachable states *)
Theorem C12_reachable_states_related : forall (capacity : Z) (ops : list op),
  R (fst (run (fst (st_init capacity)) ops)) (fst (spec_run (fst (a_init capacity)) ops)).
Proof. exact CExtra.reachable_states_related. Qed.

Theorem C12_reachable_tree_invariant : forall (capacity : Z) (ops : list op) (t : ctree),
  let s := fst (run (fst (st_init capacity)) ops) in
  st_tree s = Some t \/ st_copy s = Some t -> CInv t.
Proof. exact CExtra.reachable_tree_invariant. Qed.

Theorem C12_reachable_iterators : forall (capacity : Z) (ops : list op) (t : ctree) h it,
  let s := fst (run (fst (st_init capacity)) ops) in
  st_tree s = Some t -> it_lookup (st_iters s) h = Some it ->
  it_stamp it <= modc t /\
  (it_stamp it = modc t -> exists p, it_at (abs (root t)) (it_cur it) (it_idx it) p).
Proof. exact CExtra.reachable_iterators. Qed.

(* every keys() / items() answer of every history is strictly ascending (sorted_answer is defined in Extra/CExtra.v) *)
Theorem C12_history_iteration_sorted : forall (capacity : Z) (ops : list op),
  Forall sorted_answer (snd (run (fst (st_init capacity)) ops)).
Proof. exact CExtra.history_iteration_sorted. Qed.

(* fail-fast for ANY call that changes the entries, wrapper methods (clear, pop, popitem, setdefault, update) included *)
Theorem C12_any_modification_then_next_raises :
  forall (s : cstate) (a : astate) (o : op) (t t' : ctree) h it, R s a -> o <> WSwap ->
  st_tree s = Some t -> it_lookup (st_iters s) h = Some it ->
  st_tree (fst (step s o)) = Some t' -> tree_map t' <> tree_map t ->
  snd (step (fst (step s o)) (OItNext h)) = URuntimeError.
Proof. exact CExtra.any_modification_then_next_raises. Qed.

(* the modification counter never decreases and strictly grows whenever the entries change *)
Theorem C12_modc_monotone : forall (s : cstate) (a : astate) (o : op) (t t' : ctree), R s a -> o <> WSwap ->
  st_tree s = Some t -> st_tree (fst (step s o)) = Some t' ->
  modc t <= modc t' /\ (tree_map t' <> tree_map t -> modc t < modc t').
Proof. exact CExtra.modc_monotone. Qed.

(* keys() / items() as whole lists, with the exact reference-count effect *)
Theorem C12_keys_items_whole_list : forall (s : cstate) (t : ctree),
  st_tree s = Some t -> CInv t ->
  (let s' := fst (step s OKeys) in
   snd (step s OKeys) = UKeys (map fst (tree_map t)) /\
   st_tree s' = Some t /\ st_copy s' = st_copy s /\ st_iters s' = st_iters s /\
   st_held s' = map fst (tree_map t) /\
   forall o, rc_get (st_rc s') o =
     (rc_get (st_rc s) o - cnt (map kid (st_held s)) o + cnt (map kid (st_held s')) o)%Z) /\
  (let s' := fst (step s OItems) in
   snd (step s OItems) = UItems (tree_map t) /\
   st_tree s' = Some t /\ st_copy s' = st_copy s /\ st_iters s' = st_iters s /\
   st_held s' = items_refs (tree_map t) /\
   forall o, rc_get (st_rc s') o =
     (rc_get (st_rc s) o - cnt (map kid (st_held s)) o + cnt (map kid (st_held s')) o)%Z).
Proof. exact CExtra.keys_items_whole_list. Qed.

Theorem C12_wrapper_update : forall l t rc, CInv t ->
  exists t' rc', w_update t rc l = Ok (t', rc') /\ CInv t' /\
    tree_map t' = m_update_all (tree_map t) l /\
    modc t <= modc t' /\ (l <> [] -> modc t < modc t') /\
    (forall o, rc_get rc' o =
       rc_get rc o + cnt (prefs (abs (root t'))) o - cnt (prefs (abs (root t))) o)%Z.
Proof. exact CExtra.wrapper_update_spec. Qed.

Theorem C12_wrapper_clear : forall fuel t rc, CInv t -> length (tree_map t) < fuel ->
  exists t' rc', w_clear fuel t rc = Ok (t', rc') /\ CInv t' /\ tree_map t' = [] /\
    modc t <= modc t' /\ (tree_map t <> [] -> modc t < modc t') /\
    (tree_map t = [] -> t' = t /\ rc' = rc) /\
    (forall o, rc_get rc' o =
       rc_get rc o + cnt (prefs (abs (root t'))) o - cnt (prefs (abs (root t))) o)%Z.
Proof. exact CExtra.wrapper_clear_spec. Qed.

Theorem C12_wrapper_copy : forall t rc, CInv t ->
  exists nt rc', w_copy t rc = Ok (Some nt, rc') /\ CInv nt /\ tree_map nt = tree_map t /\
    (forall o, rc_get rc' o = rc_get rc o + cnt (prefs (abs (root nt))) o)%Z.
Proof. exact CExtra.wrapper_copy_spec. Qed.
