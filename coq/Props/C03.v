(* C03 — range queries return exactly the entries inside the bounds.
   For every capacity >= 4, every history (below `fits`) and, on the state reached, EVERY
   pair of bounds (Included / Excluded / Unbounded on either side, endpoints present or
   absent, below the minimum, above the maximum, empty or inverted intervals - no relation
   between the bounds is assumed): range() yields exactly the entries whose keys satisfy
   both bounds, in ascending order, without panicking; items_range(s, e) is the half-open
   range [s, e) with None = unbounded; an iterator started at a position (leaf p of the
   chain, index idx) with an explicit end bound yields the entries from that position on,
   cut at the end bound with its stated inclusiveness.
   (The code as pinned violated the first and third sentence - an Excluded start bound on an
   absent key, an Included end bound of new_from_position_with_bounds; both were repaired
   in /repo and the model follows the repaired code; the witnesses are kept in corpus/C03.)
   OBLIGATIONS: C03_range_is_filter C03_items_range_half_open C03_from_position_honours_end_bound C03_nonvacuous C03_legacy_refuted C03_range_partial_and_exhausted *)
From BPT Require Import Common.Base Common.AMap Rust.Arena Rust.Tree Rust.Heap Rust.Readers Rust.Run
     Rust.InvDefs Rust.Repr Rust.Spec Rust.ReachDefs Rust.Walk Rust.ReadersRange Rust.Reach Props.Reachable.

Theorem C03_range_is_filter :
  forall (V : Type) (c : nat) (ops : list (op V)) (lo hi : bound), 4 <= c -> fits (ops_weight ops) ->
    exists b, state_after c ops = Some b /\
      range_collect (flatten b) lo hi
      = Ok (filter (fun e => within lo hi (kz (fst e))) (contents (root b))).
Proof.
  intros V c ops lo hi Hc F. destruct (@reachable_state V c ops Hc F) as (b & E & I & R & HO & _).
  exists b. split; [exact E|]. exact (range_spec I HO lo hi).
Qed.

Theorem C03_items_range_half_open :
  forall (V : Type) (c : nat) (ops : list (op V)) (s e : option Z), 4 <= c -> fits (ops_weight ops) ->
    exists b, state_after c ops = Some b /\
      items_range_collect (flatten b) s e
      = Ok (filter (fun x => andb (match s with Some a => Z.leb a (kz (fst x)) | None => true end)
                                  (match e with Some z => Z.ltb (kz (fst x)) z | None => true end))
                   (contents (root b))).
Proof.
  intros V c ops s e Hc F. destruct (@reachable_state V c ops Hc F) as (b & E & I & R & HO & _).
  exists b. split; [exact E|]. rewrite (items_range_spec I HO s e).
  unfold m_range, within, opt_bound_lo, opt_bound_hi. destruct s, e; reflexivity.
Qed.

Theorem C03_from_position_honours_end_bound :
  forall (V : Type) (c : nat) (ops : list (op V)) p idx (e : option (Z * bool)), 4 <= c -> fits (ops_weight ops) ->
    exists b, state_after c ops = Some b /\
      snd (step b (OFromPos p idx e)) =
      match nth_error (leaves_of (root b)) p with
      | Some (id, l) =>
          UList (take_until (fun z => match e with Some (ez, true) => Z.ltb ez z
                                                 | Some (ez, false) => Z.leb ez z | None => false end)
                   (skipn (offset (leaves_of (root b)) p + Nat.min idx (length (lkeys l))) (contents (root b))))
      | None => UList []
      end.
Proof.
  intros V c ops p idx e Hc F. destruct (@reachable_state V c ops Hc F) as (b & E & I & R & HO & _).
  exists b. split; [exact E|]. exact (from_pos_op_spec I HO p idx e).
Qed.

Definition C03_nonvacuous := ReachExamples.ex_agree.

From BPT Require Import Legacy.RustLegacy.
From BPT Require Extra.RustExtra2.
(* the code as pinned violated this property twice (both repaired in /repo): an Excluded start
   bound on an absent key dropped the first in-range entry; an Included end bound of
   new_from_position_with_bounds was treated as exclusive. Pre-repair definitions and
   witnesses (evaluated by vm_compute), next to the repaired results: *)
Definition C03_legacy_refuted :=
  (d1_refuted, d2_refuted, range_excluded_absent_refuted, from_position_included_refuted).

(* a range iterator advanced n times on a reachable state yields the first n entries within the bounds and then None for ever *)
Theorem C03_range_partial_and_exhausted : forall (V : Type) (c : nat) (ops : list (op V)) (lo hi : bound) (n : nat),
  4 <= c -> fits (ops_weight ops) ->
  exists b it s', state_after c ops = Some b /\ range (flatten b) lo hi = Ok it /\
    let R := filter (fun e => within lo hi (kz (fst e))) (contents (root b)) in
    take_n (range_next (flatten b)) n it
    = Ok (s', map Some (firstn n R) ++ repeat None (n - length R)).
Proof. exact RustExtra2.range_partial_and_exhausted. Qed.
