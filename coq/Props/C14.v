(* C14 — validators reject every documented kind of structural damage.
   Soundness form, for EVERY value of the raw heap type (any damaged map, not a list of
   damage operators): if check_invariants answers `true` then every node reachable from
   the root is allocated, has strictly ascending keys (no duplicates), equal key and value
   counts, at most `capacity` keys, at least capacity/2 keys unless it is the root, leaf
   keys inside the interval its ancestors' separators allow, and one more child than keys
   ([node_ok], Rust/ValidDefs.v).  Contrapositive: a reachable node showing any of these
   kinds of damage makes check_invariants answer something other than `true`, and makes
   check_invariants_detailed / validate / validate_for_operation return an error; and
   whenever the detailed check fails, try_insert / try_remove refuse with a data-integrity
   error and return the map unchanged.  For chain damage and orphans the detailed check
   establishes: the keys met along the chain are strictly ascending and as many as len(),
   the numbers of nodes in the tree equal the allocated counts of both arenas, and the ids
   met along the chain are a permutation of the leaf ids of the tree.
   "answers something other than true" includes non-termination of the real validator on
   cyclic damage (the model's OutOfFuel); the property restricts chain damage to acyclic
   chains.
   OBLIGATIONS: C14_check_sound C14_damage_rejected_by_check C14_damage_rejected_by_detailed C14_detailed_sound C14_validate_is_detailed C14_try_ops_refuse_on_heap C14_try_ops_refuse_unchanged C14_chain_damage_rejected C14_chain_exact C14_nonvacuous C14_legacy_refuted C14_check_total C14_damage_gives_false C14_damage_refused_unchanged C14_detailed_total C14_chain_damage_refused C14_orphan_rejected C14_damage_operators_rejected C14_any_leaf_damage_rejected C14_orphan_operators_rejected C14_damage_operators_nonvacuous C14_all_damage_operators_rejected C14_overfull_but_otherwise_valid_branch_rejected C14_damage_operators2_nonvacuous *)
From BPT Require Import Common.Base Common.AMap Rust.Arena Rust.Tree Rust.Heap Rust.Readers Rust.Run
     Rust.InvDefs Rust.ValidDefs Rust.Damage Rust.ValidSound Rust.ChainExact.
From Coq Require Import Permutation.

Theorem C14_check_sound : forall (V : Type) (h : heap V),
  check_invariants h = Ok true -> hwf h true None None (hroot h).
Proof. exact check_sound. Qed.

Theorem C14_damage_rejected_by_check : forall (V : Type) (h : heap V) r isroot lo hi,
  hreach h r isroot lo hi -> ~ node_ok h r isroot lo hi -> check_invariants h <> Ok true.
Proof. exact damaged_rejected. Qed.

Theorem C14_damage_rejected_by_detailed : forall (V : Type) (h : heap V) r isroot lo hi,
  hreach h r isroot lo hi -> ~ node_ok h r isroot lo hi -> check_invariants_detailed h <> Ok None.
Proof. exact detailed_rejects_damage. Qed.

Theorem C14_detailed_sound : forall (V : Type) (h : heap V), check_invariants_detailed h = Ok None ->
  hwf h true None None (hroot h) /\
  (exists ks, keys h = Ok ks /\ sorted_keys ks /\ len h = Ok (length ks)) /\
  (exists nl nb, count_nodes_in_tree h = Ok (nl, nb) /\ nl = a_len (hleaves h) /\ nb = a_len (hbranches h)) /\
  (exists tids fid cids, collect_leaf_ids h = Ok tids /\ get_first_leaf_id h = Ok fid /\
      chain_ids (S (S (length (store (hleaves h))))) h fid = Ok cids /\ Permutation tids cids).
Proof. exact detailed_sound. Qed.

Theorem C14_validate_is_detailed : forall (V : Type) (h : heap V),
  validate h = check_invariants_detailed h /\ validate_for_operation h = check_invariants_detailed h.
Proof. exact validate_same. Qed.

Theorem C14_try_ops_refuse_on_heap : forall (V : Type) (h : heap V) e k v z,
  check_invariants_detailed h = Ok (Some e) ->
  hstep h (OTryInsert k v) = Some (UResOpt None (Some (DataIntegrity e))) /\
  hstep h (OTryRemove z) = Some (URes None (Some (DataIntegrity e))).
Proof. exact try_refuse_heap. Qed.

Theorem C14_try_ops_refuse_unchanged : forall (V : Type) (b : bstate V) e k v z,
  check_invariants_detailed (flatten b) = Ok (Some e) ->
  try_insert b k v = Ok (b, None, Some (DataIntegrity e)) /\
  try_remove b z = Ok (b, None, Some (DataIntegrity e)).
Proof. exact try_refuse_state. Qed.

(* chain damage: whenever the ids met by walking the leaf chain from the leftmost leaf differ
   from the in-order leaf ids of the tree - a chain that skips, truncates or misorders
   leaves, or runs into an unallocated node - the detailed validators return an error, on
   any heap whose tree leaves carry a capacity field of at least 2 (damage to the capacity
   FIELD itself is not among the documented kinds; ChainExact.v exhibits a heap with
   capacity fields 0 on which a misordered chain of empty leaves is accepted) *)
Theorem C14_chain_damage_rejected : forall (V : Type) (h : heap V) tids fid cids,
  collect_leaf_ids h = Ok tids -> get_first_leaf_id h = Ok fid ->
  chain_ids (S (S (length (store (hleaves h))))) h fid = Ok cids ->
  (forall id l, In id tids -> get_leaf h id = Some l -> 2 <= lcap l) ->
  cids <> tids -> check_invariants_detailed h <> Ok None.
Proof. intros V h tids fid cids. apply chain_damage_rejected. Qed.

Theorem C14_chain_exact : forall (V : Type) (h : heap V) tids fid cids,
  check_invariants_detailed h = Ok None ->
  collect_leaf_ids h = Ok tids -> get_first_leaf_id h = Ok fid ->
  chain_ids (S (S (length (store (hleaves h))))) h fid = Ok cids ->
  (forall id l, In id tids -> get_leaf h id = Some l -> lkeys l <> []) ->
  cids = tids.
Proof. intros V h tids fid cids. apply chain_exact. Qed.

(* a valid three-level map is accepted; each kind of damage injected with the edits of
   Rust/Damage.v is rejected (evaluated by vm_compute) *)
Import ValidSoundExamples.
Definition C14_nonvacuous :=
  (ex_valid, ex_valid_detailed, ex_leaf_key, ex_branch_key, ex_pop_val, ex_push_key, ex_pop_child,
   ex_dup_child, ex_trunc, ex_dangling, ex_free_leaf, ex_chain_cut, ex_orphan_leaf, ex_orphan_branch).

From BPT Require Import Legacy.RustLegacy.
From BPT Require Extra.RustExtra2.
From BPT Require Import Rust.InvDefs Rust.Repr Extra.DamageOps Extra.DamageOps2.
From BPT Require Extra.RustExtra.
(* the validators as pinned accepted an empty non-root node (repaired in /repo) *)
Definition C14_legacy_refuted := (d10_refuted, validator_empty_node_refuted).

(* check_invariants answers true or false on every heap (or runs out of fuel on a cyclic graph): no panic *)
Theorem C14_check_total : forall (V : Type) (h : heap V),
  (exists r, check_invariants h = Ok r) \/ check_invariants h = OutOfFuel.
Proof. exact RustExtra.check_total. Qed.

(* the damage kinds make check_invariants return exactly false and the detailed validator exactly Err *)
Theorem C14_damage_gives_false : forall (V : Type) (h : heap V) r isroot lo hi,
  hreach h r isroot lo hi -> ~ node_ok h r isroot lo hi -> check_invariants h <> OutOfFuel ->
  check_invariants h = Ok false /\ check_invariants_detailed h = Ok (Some E_TREE).
Proof. exact RustExtra.damage_gives_false. Qed.

(* ... and try_insert / try_remove refuse with the data-integrity error and return the SAME state *)
Theorem C14_damage_refused_unchanged : forall (V : Type) (b : bstate V) r isroot lo hi k v z,
  hreach (flatten b) r isroot lo hi -> ~ node_ok (flatten b) r isroot lo hi ->
  check_invariants (flatten b) <> OutOfFuel ->
  try_insert b k v = Ok (b, None, Some (DataIntegrity E_TREE)) /\
  try_remove b z = Ok (b, None, Some (DataIntegrity E_TREE)).
Proof. exact RustExtra.damage_refused_unchanged. Qed.

Theorem C14_detailed_total : forall (V:Type) (h:heap V),
  (exists r, check_invariants_detailed h = Ok r) \/ check_invariants_detailed h = OutOfFuel.
Proof. exact RustExtra2.detailed_total. Qed.

(* chain damage: the detailed validator returns an error and the try-operations refuse *)
Theorem C14_chain_damage_refused : forall (V:Type) (h:heap V) tids fid cids k v z,
  collect_leaf_ids h = Ok tids -> get_first_leaf_id h = Ok fid ->
  chain_ids (S (S (length (store (hleaves h))))) h fid = Ok cids ->
  (forall id l, In id tids -> get_leaf h id = Some l -> 2 <= lcap l) ->
  cids <> tids -> check_invariants_detailed h <> OutOfFuel ->
  exists e, check_invariants_detailed h = Ok (Some e) /\
    hstep h (OTryInsert k v) = Some (UResOpt None (Some (DataIntegrity e))) /\
    hstep h (OTryRemove z) = Some (URes None (Some (DataIntegrity e))).
Proof. exact RustExtra2.chain_damage_refused. Qed.

(* an allocated node unreachable from the root is rejected by the detailed validator *)
Theorem C14_orphan_rejected : forall (V:Type) (h:heap V) tids bids,
  collect_leaf_ids h = Ok tids -> collect_branch_ids h = Ok bids ->
  (forall id l, In id tids -> get_leaf h id = Some l -> 2 <= lcap l) ->
  ((exists id, a_contains (hleaves h) id = true /\ ~ In id tids) \/
   (exists id, a_contains (hbranches h) id = true /\ ~ In id bids)) ->
  check_invariants_detailed h <> Ok None.
Proof. exact RustExtra2.orphan_rejected. Qed.

(* "Every valid state x every damage operator x every position": for every state satisfying
   the invariant (every reachable state does: C04) and every edit of Rust/Damage.v that has
   one of the documented damaging effects at the position it names ([damaging b e] of
   Extra/DamageOps.v: 19 cases - unsorted / duplicated keys in a leaf or branch, key and value
   counts differing, node above capacity, non-root node below minimum, key outside its parent's
   interval, child count wrong, dangling child or root reference, freed node still referenced),
   check_invariants answers exactly false, the detailed validator / validate_for_operation
   exactly the tree error, and try_insert / try_remove refuse.  The fuel side condition of the
   heap-level theorems is discharged here (no edit of these kinds creates a cycle). *)
Section DamageOperators.
Variable V : Type.

Theorem C14_damage_operators_rejected : forall (b : bstate V) (e : edit V) k v z,
  Inv b -> rooms b -> damaging b e ->
  let h' := apply_edit (flatten b) e in
  check_invariants h' = Ok false /\ check_invariants_detailed h' = Ok (Some E_TREE) /\
  validate_for_operation h' = Ok (Some E_TREE) /\
  hstep h' (OTryInsert k v) = Some (UResOpt None (Some (DataIntegrity E_TREE))) /\
  hstep h' (@OTryRemove V z) = Some (URes None (Some (DataIntegrity E_TREE))).
Proof. exact (@DamageOps.damage_operators_refused V). Qed.

(* the generic form behind it: ANY rewrite of a reachable leaf into a locally bad leaf *)
Theorem C14_any_leaf_damage_rejected : forall (b : bstate V) p id l (f : leaf V -> leaf V),
  Inv b -> rooms b -> leaf_at (flatten b) p = Some id -> get_leaf (flatten b) id = Some l ->
  leaf_bad b id (f l) -> rejected (upd_leaf (flatten b) id f).
Proof. exact (@DamageOps.leaf_damage V). Qed.

(* orphans: an allocated node unreachable from the root is reported by the detailed validator *)
Theorem C14_orphan_operators_rejected : forall (b : bstate V), Inv b -> rooms b ->
  check_invariants_detailed (apply_edit (flatten b) (@EOrphanLeaf V)) <> Ok None /\
  check_invariants_detailed (apply_edit (flatten b) (@EOrphanBranch V)) <> Ok None.
Proof. intros b I R. split; [exact (DamageOps.edit_EOrphanLeaf_rejected I R)|exact (DamageOps.edit_EOrphanBranch_rejected I R)]. Qed.

End DamageOperators.

(* non-vacuity: a reachable state (20 inserts at capacity 4) and 23 concrete edits, one or more
   per case of [damaging] *)
Definition C14_damage_operators_nonvacuous := (DamageOpsExamples.ex_b_valid, DamageOpsExamples.ex_theorem_applies).

(* The two cases the 19 above left out (Extra/DamageOps2.v), so that [damaging2] covers every
   documented kind through an operator-level theorem: a branch ABOVE CAPACITY that is otherwise
   entirely valid (EBranchPushLeaf appends whole, valid, chained leaves: nothing but the key count
   of the branch is wrong), and a separator rewritten so that the branch stays sorted and within
   capacity but a key somewhere below - at any depth - falls outside the new interval. *)
Section DamageOperators2.
Variable V : Type.

Theorem C14_all_damage_operators_rejected : forall (b : bstate V) (e : edit V) k v z,
  Inv b -> rooms b -> damaging2 b e ->
  let h' := apply_edit (flatten b) e in
  check_invariants h' = Ok false /\ check_invariants_detailed h' = Ok (Some E_TREE) /\
  validate_for_operation h' = Ok (Some E_TREE) /\
  hstep h' (OTryInsert k v) = Some (UResOpt None (Some (DataIntegrity E_TREE))) /\
  hstep h' (@OTryRemove V z) = Some (URes None (Some (DataIntegrity E_TREE))).
Proof. exact (@DamageOps2.damage_operators_refused2 V). Qed.

Theorem C14_overfull_but_otherwise_valid_branch_rejected : forall (b : bstate V) p bid x ks vs,
  Inv b -> rooms b -> branch_at (flatten b) p = Some bid -> get_branch (flatten b) bid = Some x ->
  (exists lid, last_opt (bkids x) = Some (RLeaf lid)) -> ks <> [] ->
  cap b <= length (bkeys x) ->
  rejected (apply_edit (flatten b) (EBranchPushLeaf p ks vs)).
Proof. exact (@DamageOps2.edit_EBranchPushLeaf_rejected_full V). Qed.

End DamageOperators2.

Definition C14_damage_operators2_nonvacuous :=
  (DamageOps2Examples.ex17_theorem_applies, DamageOps2Examples.ex17_computed, DamageOps2Examples.ex_computed2).
