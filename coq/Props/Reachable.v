(* Shared vocabulary of the Rust-map property files: the state reached by a history. *)
From BPT Require Import Common.Base Common.AMap Rust.Arena Rust.Tree Rust.Heap Rust.Readers Rust.Run
     Rust.InvDefs Rust.Repr Rust.Spec Rust.ReachDefs Rust.Bridge Rust.Reach.
Set Implicit Arguments.

Section Reachable.
Variable V : Type.

(* the state after running the history [ops] on BPlusTreeMap::new(c) *)
Definition state_after (c : nat) (ops : list (op V)) : option (bstate V) :=
  match b_new V c with Some b0 => Some (fst (run b0 ops)) | None => None end.
Definition outputs_of (c : nat) (ops : list (op V)) : list (out V) :=
  match b_new V c with Some b0 => snd (run b0 ops) | None => [] end.

Lemma ops_weight_cons : forall (o : op V) ops, ops_weight (o :: ops) = op_weight o + ops_weight ops.
Proof. intros. unfold ops_weight. reflexivity. Qed.

Lemma fits_le : forall a b, a <= b -> fits b -> fits a.
Proof. unfold fits. intros a b H F. lia. Qed.

Lemma run_cap : forall ops n (b : bstate V), Good n b -> fits (n + ops_weight ops) ->
  cap (fst (run b ops)) = cap b.
Proof.
  induction ops as [|o ops IH]; intros n b G F; cbn [run fst]; [reflexivity|].
  rewrite ops_weight_cons in F.
  assert (F1 : fits (n + op_weight o)) by (eapply fits_le; [|exact F]; lia).
  destruct (@step_good V n b o G F1) as (G1 & _ & C1).
  destruct (step b o) as [b1 x] eqn:Es. cbn [fst] in G1, C1.
  specialize (IH (n + op_weight o) b1 G1).
  destruct (run b1 ops) as [b2 xs] eqn:Er. cbn [fst] in *.
  rewrite IH; [exact C1|]. eapply fits_le; [|exact F]. lia.
Qed.

(* every capacity >= 4 and every history below the model bound (2*weight+8 < 2^32-1)
   reaches a state satisfying the invariant, laid out in arenas that represent it *)
Lemma reachable_state : forall c ops, 4 <= c -> fits (ops_weight ops) ->
  exists b, state_after c ops = Some b /\ Inv b /\ rooms b /\ heap_of b (flatten b) /\ cap b = c.
Proof.
  intros c ops Hc F.
  destruct (@new_good V c Hc) as (b0 & E & G & Hcap & _).
  destruct (@run_good V ops 0 b0 G F) as (G' & _).
  unfold state_after. rewrite E. eexists. split; [reflexivity|].
  destruct G' as (I & L1 & L2 & L3).
  assert (R : rooms (fst (run b0 ops))).
  { destruct (@reachable_inv V c ops Hc F) as (b0' & E' & _ & R & _).
    rewrite E in E'. inversion E'; subst b0'. exact R. }
  split; [exact I|]. split; [exact R|]. split; [apply flatten_heap_of; assumption|].
  rewrite (@run_cap ops 0 b0 G F). exact Hcap.
Qed.

End Reachable.
