(* C09 -- Python tree keeps B+ tree invariants; bulk load equals incremental build.
   "After every mutation of the pure-Python tree all leaves are at the same depth, node
   keys are strictly ascending, every branch has one more child than keys and its
   separators bound its subtrees, no node exceeds capacity, every non-root node holds at
   least (capacity-1)//2 keys, a branch root has at least two children, and the leaf chain
   from the map's first leaf visits exactly the leaves in order. from_sorted_items(items)
   yields a map with the same contents as assigning the items one by one and satisfies the
   same invariants, for any item list sorted by key."

   This file contains only pinned statements, each closed by a lemma of Py/*.v.
   The invariant is Py/Inv.v [PyInv]: [ord] (keys strictly ascending, separators bound the
   subtrees: left of a separator smaller, right of it greater or equal), [pshape] (uniform
   leaf depth, arity, capacity, occupancy with the minimum written literally as
   (cap - 1) / 2, root arity), [chain_ok] + [pi_head] + [pi_nodup] (the chain from
   self.leaves is the in-order sequence of the leaves, as object identities).
   Model variant del_by_value = false (see Props/C07.v; for the code as it stands:
   C09_legacy_refuted).  Quantification: all histories, all capacities >= 4, all item lists.
   OBLIGATIONS: C09_invariant_after_every_history C09_invariant_in_words C09_node_shape_in_words C09_setitem_preserves C09_delitem_preserves C09_merge_guard_never_refuses C09_bulk_load_sorted C09_bulk_load_any_list C09_bulk_equals_incremental C09_legacy_refuted C09_nonvacuous C09_nonvacuous_bulk C09_ord_in_words C09_chain_visits_leaves_in_order *)
From Coq Require Import List Arith ZArith NArith Lia Bool.
From BPT Require Import Common.Base Common.AMap Rust.Tree Rust.InvDefs
  Py.Tree Py.Run Py.Inv Py.Spec Py.NewProofs Py.InsertProofs Py.DeleteLocal Py.DeleteProofs
  Py.BulkProofs Py.ReachFinal Py.Corollaries Py.LegacyRefuted.
From BPT Require Import Extra.PyExtra.
Import ListNotations.

(* every map of every world reached by any history of calls (mutations of every kind:
   assignment, deletion, pop, popitem, setdefault, update, copy, clear, bulk load) *)
Theorem C09_invariant_after_every_history : forall ops n s,
  In (n, s) (maps (fst (run false w0 ops))) -> PyInv s.
Proof. exact py_reachable_inv. Qed.

Theorem C09_invariant_in_words : forall s, PyInv s ->
  4 <= tcap s /\
  ord None None (troot s) /\
  (exists h, pshape (tcap s) true h (troot s)) /\
  hd_error (pleaf_ids (troot s)) = Some (tleaves s) /\
  links_ok (pleaf_links (troot s)) NULL /\
  NoDup (pleaf_ids (troot s)).
Proof. exact invariant_in_words. Qed.

(* pshape, node by node: at most cap keys; a non-root node at least (cap - 1) / 2; all
   leaves at depth h; one more child than keys; a branch root has at least two children *)
Theorem C09_node_shape_in_words : forall cap isroot h t, pshape cap isroot h t ->
  length (pkeys t) <= cap /\
  (isroot = false -> (cap - 1) / 2 <= length (pkeys t)) /\
  height t = h /\
  match t with
  | PLeaf _ nc ks vs _ => nc = cap /\ length vs = length ks /\ h = 0
  | PBranch _ nc ks cs =>
      nc = cap /\ length cs = S (length ks) /\ (isroot = true -> 2 <= length cs) /\
      forall ch, In ch cs -> pshape cap false (pred h) ch
  end.
Proof. exact pshape_node_facts. Qed.

Theorem C09_setitem_preserves : forall s k v, PyInv s ->
  exists s', py_setitem s k v = Ok s' /\ PyInv s' /\
    pcontents s' = m_insert (pcontents s) k v /\
    tcap s' = tcap s /\ tleaves s' = tleaves s /\ tcache s' = tcache s /\ (tnext s <= tnext s')%N.
Proof. exact py_setitem_spec. Qed.

Theorem C09_delitem_preserves : forall s z, PyInv s ->
  exists s', py_delitem false s z = Ok (s', is_some (m_get (pcontents s) z)) /\ PyInv s' /\
    pcontents s' = m_remove (pcontents s) z /\
    tcap s' = tcap s /\ tleaves s' = tleaves s /\ tcache s' = tcache s /\ tnext s' = tnext s.
Proof. exact py_delitem_spec. Qed.

(* the capacity guards of _merge_with_sibling never refuse on invariant states: an
   underfull child whose siblings cannot donate is always merged *)
Theorem C09_merge_guard_never_refuses : forall c h ks (cs : list ptree) ci x,
  4 <= c -> length cs = S (length ks) -> 1 <= length ks ->
  nth_error cs ci = Some x -> pshape_u c h x ->
  (forall j y, j <> ci -> nth_error cs j = Some y -> pshape c false h y) ->
  (forall l, 0 < ci -> nth_error cs (ci - 1) = Some l -> py_can_donate l = false) ->
  (forall r, ci = 0 -> nth_error cs 1 = Some r -> py_can_donate r = false) ->
  exists ks' cs', merge_with_sibling c ks cs ci = Ok (ks', cs') /\
    S (length ks') = length ks /\ S (length cs') = length cs.
Proof. exact merge_guard_never_refuses. Qed.

(* bulk load, as the property states it: any item list sorted by key (repeats allowed) *)
Theorem C09_bulk_load_sorted : forall l c, sorted_pairs l -> 4 <= c ->
  exists s, from_sorted_items l c = Ok s /\ PyInv s /\ tcap s = c /\
    pcontents s = m_insert_all [] l.
Proof. exact py_bulk_sorted_spec. Qed.

(* ... and in fact any item list *)
Theorem C09_bulk_load_any_list : forall l c, 4 <= c ->
  exists s, from_sorted_items l c = Ok s /\ PyInv s /\ tcap s = c /\
    pcontents s = m_insert_all [] l.
Proof. exact py_bulk_spec. Qed.

Theorem C09_bulk_equals_incremental : forall l c, 4 <= c ->
  exists sb si, from_sorted_items l c = Ok sb /\
    (do s0 <- py_new c; py_update s0 l) = Ok si /\
    PyInv sb /\ PyInv si /\ pcontents sb = pcontents si.
Proof. exact py_bulk_equals_incremental. Qed.

(* the code as it stands: deleting keys whose value is None leaves a non-root leaf empty *)
Theorem C09_legacy_refuted :
  exists s, current (fst (run true w0 d12_witness_c09)) = Some s /\ ~ PyInv s.
Proof. exact py_underfull_after_none_delete_refuted. Qed.

(* non-vacuity: three-level states reached by histories (inserts with splits at every
   level; deletions with borrows, merges and both root collapses; a bulk load with repeated
   keys) satisfy the invariant *)
Definition C09_nonvacuous :=
  (demo_heights, demo_states_inv, demo_three_levels_inv, DeleteExample.delete_nonvacuous,
   bulk_example_sorted).
(* from_sorted_items of 25 sorted pairs with repeats at capacity 4: 20 entries, height 2 *)
Definition C09_nonvacuous_bulk := bulk_example.

(* the ordering predicate in words: node keys strictly ascending, entries within the bounds, each child's entries below the separator to its right and at or above the separator to its left *)
Theorem C09_ord_in_words : forall lo hi (t : ptree) c r h, ord lo hi t -> pshape c r h t ->
  sorted_keys (pkeys t) /\
  Forall (fun e => in_bounds lo hi (fst e)) (contents t) /\
  match t with
  | PLeaf _ _ _ _ _ => True
  | PBranch _ _ ks cs => forall i ch, nth_error cs i = Some ch ->
       forall e, In e (contents ch) ->
         (forall sp, nth_error ks i = Some sp -> (kz (fst e) < kz sp)%Z) /\
         (forall sp, 0 < i -> nth_error ks (i - 1) = Some sp -> (kz sp <= kz (fst e))%Z)
  end.
Proof. exact PyExtra.ord_in_words. Qed.

(* walking next from the map's first leaf visits exactly the tree's leaves in left-to-right order and then ends *)
Theorem C09_chain_visits_leaves_in_order : forall s, PyInv s ->
  chain_ids (chain_fuel s) (troot s) (tleaves s) = Ok (pleaf_ids (troot s)).
Proof. exact PyExtra.chain_visits_leaves_in_order. Qed.
