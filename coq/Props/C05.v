(* C05 — unchecked fast paths never touch unallocated or out-of-range slots.
   For every state of the model (hence for every state reachable through the map-level
   API) and every iterator state reachable by next() calls, no reader and no mutator
   produces the `UB` outcome, i.e. every unchecked access meets its documented safety
   precondition (index below both keys.len() and values.len(); slot allocated).
   The statements are stronger than the property asks (no invariant is needed).
   Partial, labelled: covers the preconditions of the crate's unchecked accesses; the
   absence of other UB is Rust's guarantee for safe code.  The correspondence check runs
   the real crate with assertion hooks inside get_unchecked(_mut) / get_*_unchecked and
   checks the census of `unsafe` sites on every run.
   OBLIGATIONS: C05_mutators_no_unchecked_access C05_readers_meet_preconditions C05_partial_iteration C05_ops_never_ub C05_arena_mutators_no_unchecked_access *)
From BPT Require Import Common.Base Rust.Arena Rust.Tree Rust.Heap Rust.Readers Rust.Run Rust.NoUB.
From BPT Require Import Rust.HeapOps.
From BPT Require Extra.RustExtra2.

Theorem C05_mutators_no_unchecked_access : forall (V : Type) (b : bstate V) k v z,
  no_ub (b_insert b k v) /\ no_ub (b_remove b z) /\ no_ub (b_get_mut_write b z v).
Proof. exact mutators_no_ub. Qed.

Theorem C05_readers_meet_preconditions : forall (V : Type) (b : bstate V),
  let h := flatten b in
  (forall z, no_ub (h_get h z)) /\ no_ub (len h) /\ no_ub (items h) /\ no_ub (items_fast h) /\
  no_ub (keys h) /\ no_ub (values h) /\ no_ub (first h) /\ no_ub (last h) /\
  (forall lo hi, no_ub (range_collect h lo hi)) /\ (forall s e, no_ub (items_range_collect h s e)) /\
  (forall id idx e, no_ub (from_position_collect h id idx e)) /\
  no_ub (check_invariants h) /\ no_ub (check_invariants_detailed h).
Proof.
  intros V b h. pose proof (readers_no_ub h) as H. repeat (destruct H as [? H]); repeat split; assumption || auto.
Qed.

(* partially consumed iterators: any number of next() calls from any state *)
Theorem C05_partial_iteration : forall (V : Type) (h : heap V) n,
  (forall s, no_ub (take_n (item_next h) n s)) /\ (forall s, no_ub (take_n (fast_next h) n s)) /\
  (forall s, no_ub (take_n (range_next h) n s)).
Proof.
  intros V h n. repeat split; intros s; apply take_n_no_ub; intros.
  - apply item_next_no_ub. - apply fast_next_no_ub. - apply range_next_no_ub.
Qed.

Theorem C05_ops_never_ub : forall (V : Type) (b : bstate V) (o : op V),
  (match o with OInsert _ _ | ORemove _ | OGetMutWrite _ _ | OClear | ORemoveItem _ | OTryInsert _ _
              | OTryRemove _ | OBatchInsert _ => False | _ => True end) ->
  snd (step b o) <> UUB.
Proof. exact step_readers_no_ub. Qed.

(* the arena-level mutators contain no unchecked access, on ANY heap *)
Theorem C05_arena_mutators_no_unchecked_access : forall (V:Type) (h:heap V) k v z,
  no_ub (insert_A h k v) /\ no_ub (remove_A h z) /\ no_ub (get_mut_write_A h z v).
Proof. exact RustExtra2.arena_mutators_total. Qed.
