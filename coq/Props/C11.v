(* C11 — the map never leaks or duplicates the keys and values it stores.
   For every capacity >= 4 and every history (below `fits`), on the state reached, looking
   at ALL slots of both arenas (freed ones included): the value objects stored anywhere are
   a permutation of the values of the live entries (so their number is len(), none is
   duplicated, none survives in a freed slot); the key objects stored anywhere are the entry
   keys plus the separator keys of the reachable branches (so between len() and len() +
   #separators); freed slots hold the empty default node; the object returned by remove or
   displaced by insert is the one that was stored (C01: it is m_get of the contents before);
   after clear no slot holds a key or value.
   Partial, labelled: that each object is DROPPED exactly once at clear/drop is Rust's
   ownership discipline (Vec<T> drops its elements once); the model shows there is exactly
   one owner slot per object.  The correspondence check compares raw arena dumps and the
   live-instance counters of instrumented key/value types after every call and after drop.
   OBLIGATIONS: C11_values_accounted C11_keys_accounted C11_freed_slots_hold_nothing C11_returned_object_is_the_stored_one C11_clear_drops_everything C11_nonvacuous C11_arena_level_on_reachable *)
From BPT Require Import Common.Base Common.AMap Rust.Arena Rust.Tree Rust.Heap Rust.Readers Rust.Run
     Rust.InvDefs Rust.Repr Rust.Spec Rust.ReachDefs Rust.Accounting Rust.MiscProofs Rust.Reach Props.Reachable.
From BPT Require Import Rust.HeapOps.
From BPT Require Extra.RustExtra.
From Coq Require Import Permutation.

Theorem C11_values_accounted :
  forall (V : Type) (c : nat) (ops : list (op V)), 4 <= c -> fits (ops_weight ops) ->
    exists b, state_after c ops = Some b /\
      Permutation (flat_map (@lvals V) (store (hleaves (flatten b)))) (map snd (contents (root b))) /\
      length (flat_map (@lvals V) (store (hleaves (flatten b)))) = length (contents (root b)).
Proof.
  intros V c ops Hc F. destruct (@reachable_state V c ops Hc F) as (b & E & I & R & HO & _).
  exists b. split; [exact E|]. split; [eapply values_accounted; eassumption|eapply live_values_eq_len; eassumption].
Qed.

Theorem C11_keys_accounted :
  forall (V : Type) (c : nat) (ops : list (op V)), 4 <= c -> fits (ops_weight ops) ->
    exists b, state_after c ops = Some b /\ let h := flatten b in
      Permutation (flat_map (@lkeys V) (store (hleaves h)) ++ flat_map bkeys (store (hbranches h)))
                  (map fst (contents (root b)) ++ separators (root b)) /\
      length (contents (root b))
        <= length (flat_map (@lkeys V) (store (hleaves h)) ++ flat_map bkeys (store (hbranches h))) /\
      length (flat_map (@lkeys V) (store (hleaves h)) ++ flat_map bkeys (store (hbranches h)))
        <= length (contents (root b)) + length (separators (root b)).
Proof.
  intros V c ops Hc F. destruct (@reachable_state V c ops Hc F) as (b & E & I & R & HO & _).
  exists b. split; [exact E|]. cbv zeta. split; [eapply keys_accounted; eassumption|eapply live_keys_bounds; eassumption].
Qed.

Theorem C11_freed_slots_hold_nothing :
  forall (V : Type) (c : nat) (ops : list (op V)), 4 <= c -> fits (ops_weight ops) ->
    exists b, state_after c ops = Some b /\ let h := flatten b in
      (forall i l, nth_error (store (hleaves h)) i = Some l -> m_mask_at (lmeta b) i = false ->
         lkeys l = [] /\ lvals l = []) /\
      (forall i x, nth_error (store (hbranches h)) i = Some x -> m_mask_at (bmeta b) i = false ->
         bkeys x = [] /\ bkids x = []).
Proof.
  intros V c ops Hc F. destruct (@reachable_state V c ops Hc F) as (b & E & I & R & HO & _).
  exists b. split; [exact E|]. cbv zeta. eapply freed_slots_empty; eassumption.
Qed.

(* values are moved, never cloned: what remove returns / insert displaces is the stored
   object, and it is no longer stored afterwards *)
Theorem C11_returned_object_is_the_stored_one :
  forall (V : Type) n (b : bstate V), Good n b ->
    (forall z, fits (n + 1) ->
       snd (step b (ORemove z)) = UOpt (m_get (contents (root b)) z) /\
       contents (root (fst (step b (ORemove z)))) = m_remove (contents (root b)) z) /\
    (forall k v, fits (n + 1) ->
       snd (step b (OInsert k v)) = UOpt (m_get (contents (root b)) (kz k)) /\
       contents (root (fst (step b (OInsert k v)))) = m_insert (contents (root b)) k v).
Proof.
  intros V n b G. split.
  - intros z F. pose proof (@step_refines V n b (ORemove z) G F eq_refl) as H.
    cbn [spec_step] in H. apply (f_equal fst) in H as H1. apply (f_equal snd) in H as H2.
    cbn [fst snd] in H1, H2. split; symmetry; assumption.
  - intros k v F. pose proof (@step_refines V n b (OInsert k v) G F eq_refl) as H.
    cbn [spec_step] in H. apply (f_equal fst) in H as H1. apply (f_equal snd) in H as H2.
    cbn [fst snd] in H1, H2. split; symmetry; assumption.
Qed.

Theorem C11_clear_drops_everything :
  forall (V : Type) (b : bstate V), 4 <= cap b ->
    let h := flatten (b_clear b) in
    flat_map (@lvals V) (store (hleaves h)) = [] /\ flat_map (@lkeys V) (store (hleaves h)) = [] /\
    store (hbranches h) = [].
Proof. intros V b Hc. cbv zeta. vm_compute. auto. Qed.

Definition C11_nonvacuous := (AccountingExamples.ex_accounted, AccountingExamples.ex_values).

(* what gives content to the freed-slot statements above: on every reachable state the slot-by-slot arena algorithm (which moves nodes out of freed slots) yields exactly flatten of the tree-level result, whose freed slots hold the default node *)
Theorem C11_arena_level_on_reachable : forall (V : Type) (c : nat) (ops : list (op V)) (o : op V), 4 <= c -> fits (ops_weight ops + 1) ->
  exists b, state_after c ops = Some b /\
    match mut_A (flatten b) o with
    | Some r => r = Ok (flatten (fst (step b o)), snd (step b o))
    | None => True
    end.
Proof. exact RustExtra.arena_level_on_reachable. Qed.
