(* C16 — CompactArena handles stay valid and unique until they are released.
   This file contains only pinned statements, each closed by a lemma of
   Rust/ArenaProofs.v.  Quantification: every item type T, every default item, every
   finite history of arena calls (bound in the theorem: fewer calls than 2^32-1, the
   handle range of the crate itself).
   OBLIGATIONS: C16_history_refines_handle_map C16_allocate_fresh C16_release_once C16_release_no_return C16_get_mut C16_contains C16_counts C16_clear C16_compact C16_out_of_range C16_nonvacuous C16_len_counts_live C16_history_refines_strengthened_handle_map C16_allocate_never_returns_live_or_null C16_strengthened_machine_keeps_handles_distinct C16_strengthened_machine_is_a_restriction C16_compact_handles_exact *)
From BPT Require Import Common.Base Rust.Arena Rust.ArenaSpec Rust.ArenaProofs.
From BPT Require Import Extra.ArenaSpec2.
From BPT Require Extra.RustExtra2.
From Coq Require Import Permutation.

(* Every history of allocate / deallocate x3 / get / get_mut / contains / len /
   allocated_count / is_empty / free_count / stats / clear / compact calls on a fresh
   arena produces exactly the outputs the abstract machine "finite map from handles to
   items" allows (ArenaSpec.sp): allocate returns a non-null handle that is not live;
   get/get_mut/contains answer from the map; a release returns the stored item once and
   fails afterwards without changing anything; the counters equal the numbers of live and
   of released-but-reusable slots; clear empties the map; compact keeps the live items.
   No call panics, and the representation invariant holds at the end. *)
Theorem C16_history_refines_handle_map :
  forall (T : Type) (dflt : T) (ops : list (aop T)),
    (N.of_nat (length ops) < NULL)%N ->
    exists m',
      sp_run (mkAmap [] 0) ops (snd (arun dflt a_new ops)) m' /\
      R (fst (arun dflt a_new ops)) m' /\
      ArenaInv (fst (arun dflt a_new ops)) /\
      ~ In (OPanic T) (snd (arun dflt a_new ops)).
Proof. exact arena_refines_new. Qed.

Theorem C16_allocate_fresh :
  forall (T : Type) (a : arena T) (x : T), ArenaInv a -> small a ->
    exists a' h, allocate a x = Ok (a', h) /\ h <> NULL /\ a_get a h = None /\
      a_get a' h = Some x /\ (forall h', h' <> h -> a_get a' h' = a_get a h') /\
      ArenaInv a' /\ a_len a' = S (a_len a) /\ a_free_count a' = pred (a_free_count a) /\
      length (store a') = (match free a with [] => S (length (store a)) | _ => length (store a) end).
Proof. exact allocate_spec. Qed.

Theorem C16_release_once :
  forall (T : Type) (dflt : T) (a : arena T) (h : N), ArenaInv a ->
    exists a', deallocate dflt a h = Ok (a', a_get a h) /\ a_get a' h = None /\
      (forall h', h' <> h -> a_get a' h' = a_get a h') /\ ArenaInv a' /\
      length (store a') = length (store a) /\ (a_get a h = None -> a' = a) /\
      (a_get a h <> None -> a_len a = S (a_len a') /\ a_free_count a' = S (a_free_count a)).
Proof. exact deallocate_spec. Qed.

Theorem C16_release_no_return :
  forall (T : Type) (a : arena T) (h : N), ArenaInv a ->
    exists a', deallocate_no_return a h = Ok (a', is_some (a_get a h)) /\ a_get a' h = None /\
      (forall h', h' <> h -> a_get a' h' = a_get a h') /\ ArenaInv a' /\
      length (store a') = length (store a) /\ (a_get a h = None -> a' = a) /\
      (a_get a h <> None -> a_len a = S (a_len a') /\ a_free_count a' = S (a_free_count a)).
Proof. exact deallocate_no_return_spec. Qed.

Theorem C16_get_mut :
  forall (T : Type) (a : arena T) (h : N) (x : T), ArenaInv a ->
    let '(a', b) := a_set a h x in
    b = is_some (a_get a h) /\ (b = true -> a_get a' h = Some x) /\ (b = false -> a' = a) /\
    (forall h', h' <> h -> a_get a' h' = a_get a h') /\ ArenaInv a' /\
    a_len a' = a_len a /\ free a' = free a /\ length (store a') = length (store a).
Proof. exact set_spec. Qed.

Theorem C16_contains :
  forall (T : Type) (a : arena T) (h : N), a_contains a h = is_some (a_get a h).
Proof. exact contains_spec. Qed.

Theorem C16_counts :
  forall (T : Type) (a : arena T), ArenaInv a -> a_len a + a_free_count a = length (store a).
Proof. exact counts_spec. Qed.

Theorem C16_clear :
  forall (T : Type) (a : arena T),
    ArenaInv (a_clear a) /\ (forall h, a_get (a_clear a) h = None) /\
    a_len (a_clear a) = 0 /\ a_free_count (a_clear a) = 0.
Proof. exact clear_spec. Qed.

Theorem C16_compact :
  forall (T : Type) (a : arena T), length (store a) = length (mask a) ->
    ArenaInv (a_compact a) /\ store (a_compact a) = live_items (store a) (mask a) /\
    a_len (a_compact a) = a_len a /\ a_free_count (a_compact a) = 0 /\
    (forall i, a_get (a_compact a) (N.of_nat i) =
               if N.eqb (N.of_nat i) NULL then None else nth_error (live_items (store a) (mask a)) i).
Proof. exact compact_spec. Qed.

Theorem C16_out_of_range :
  forall (T : Type) (a : arena T),
    a_get a NULL = None /\ (forall h, length (store a) <= N.to_nat h -> a_get a h = None).
Proof. intros T a; split; [apply get_null | apply get_out_of_range]. Qed.

(* the hypotheses are satisfiable on a non-trivial state (frees, double free, reuse,
   stale handles, compact) *)
Definition C16_nonvacuous := (arena_run_release, arena_run_compact).

(* len counts exactly the handles for which get answers, free_count the rest *)
Theorem C16_len_counts_live : forall (T:Type) (a:arena T), ArenaInv a -> small a ->
  a_len a = length (filter (fun i => match a_get a (N.of_nat i) with Some _ => true | None => false end) (seq 0 (length (store a)))) /\
  a_free_count a = length (store a) - a_len a.
Proof. exact RustExtra2.len_counts_live. Qed.

(* the same refinement against the STRENGTHENED abstract machine sp_step2 / sp_run2 of Extra/ArenaSpec2.v (compact must yield pairwise distinct, non-null handles 0..n-1 in the old order), with wf_spec, R and ArenaInv at EVERY intermediate state of the history *)
Theorem C16_history_refines_strengthened_handle_map :
  forall (T : Type) (dflt : T) (ops : list (aop T)),
    (N.of_nat (length ops) < NULL)%N ->
    exists m',
      sp_run2 (mkAmap [] 0) ops (snd (arun dflt a_new ops)) m' /\
      R (fst (arun dflt a_new ops)) m' /\
      ArenaInv (fst (arun dflt a_new ops)) /\
      ~ In (OPanic T) (snd (arun dflt a_new ops)) /\
      forall k, exists mk,
        sp_run2 (mkAmap [] 0) (firstn k ops) (firstn k (snd (arun dflt a_new ops))) mk /\
        sp_run2 mk (skipn k ops) (skipn k (snd (arun dflt a_new ops))) m' /\
        wf_spec mk /\ R (fst (arun dflt a_new (firstn k ops))) mk /\
        ArenaInv (fst (arun dflt a_new (firstn k ops))).
Proof. exact ArenaSpec2.history_refines_handle_map2. Qed.

(* in any history - compact steps included - a handle returned by allocate is not the null handle and not a handle that is live just before the call *)
Theorem C16_allocate_never_returns_live_or_null :
  forall (T : Type) (dflt : T) (ops : list (aop T)) (k : nat) (x : T),
    (N.of_nat (length ops) < NULL)%N ->
    nth_error ops k = Some (AAlloc x) ->
    exists h mk mk1,
      nth_error (snd (arun dflt a_new ops)) k = Some (OId T h) /\
      sp_run2 (mkAmap [] 0) (firstn k ops) (firstn k (snd (arun dflt a_new ops))) mk /\
      sp_step2 mk (AAlloc x) (OId T h) mk1 /\
      wf_spec mk /\ R (fst (arun dflt a_new (firstn k ops))) mk /\
      h <> NULL /\ ~ In h (map fst (live mk)) /\
      a_get (fst (arun dflt a_new (firstn k ops))) h = None /\
      assoc (live mk1) h = Some x /\ wf_spec mk1.
Proof. exact ArenaSpec2.allocate_never_returns_live_or_null2. Qed.

Section StrengthenedMachine.
Variable T : Type.

Theorem C16_strengthened_machine_keeps_handles_distinct : forall (m : amap T) o x m', wf_spec m -> sp_step2 m o x m' -> wf_spec m'.
Proof. exact (@ArenaSpec2.sp_step2_wf T). Qed.

Theorem C16_strengthened_machine_is_a_restriction : forall (m : amap T) ops outs m',
  sp_run2 m ops outs m' -> sp_run m ops outs m'.
Proof. exact (@ArenaSpec2.sp_run2_refines_sp_run T). Qed.

Theorem C16_compact_handles_exact : forall (T : Type) (m m' : amap T) out,
  wf_spec m -> sp_step2 m (ACompact T) out m' ->
  length (live m') = length (live m) /\
  NoDup (map fst (live m')) /\ ~ In NULL (map fst (live m')) /\
  (forall h, In h (map fst (live m')) <-> (h < N.of_nat (length (live m)))%N).
Proof. exact ArenaSpec2.sp_step2_compact_handles. Qed.

End StrengthenedMachine.
