(* C10 — the checked/bulk API and the constructors agree with the basic operations.
   new(c)/empty(c) fail exactly when c < 4 (for EVERY natural c, not only 0..4096) and
   otherwise give an empty valid map; on every state reached by any history mixing checked
   and unchecked calls (below `fits`) try_get / get_item / get_many / remove_item /
   try_insert / try_remove / batch_insert return exactly what the corresponding basic
   calls return on the abstract map (KeyNotFound exactly when a key is absent; get_many
   fails iff some requested key is absent and otherwise returns the values in request
   order), never report an integrity / arena / corruption error, and
   validate_for_operation succeeds.  (These operations are part of [abstract_op], so the
   history-level refinement theorem covers them; the statements below spell out the
   property's sentences.)
   OBLIGATIONS: C10_constructor_rejects_iff_below_4 C10_new_gives_empty_valid_map C10_checked_calls_equal_basic_calls C10_get_many_spec C10_never_integrity_error C10_nonvacuous C10_default_capacity_accepted C10_batch_is_iterated_insert C10_outputs_never_integrity *)
From BPT Require Import Common.Base Common.AMap Rust.Arena Rust.Tree Rust.Heap Rust.Readers Rust.Run
     Rust.InvDefs Rust.Repr Rust.Spec Rust.ReachDefs Rust.MiscProofs Rust.ValidAccept Rust.ValidSound
     Rust.Reach Props.Reachable.
From BPT Require Extra.RustExtra2.
From BPT Require Extra.RustExtra.

Theorem C10_constructor_rejects_iff_below_4 : forall (V : Type) (c : nat), c < 4 <-> b_new V c = None.
Proof. intros V c. apply new_rejects. Qed.

Theorem C10_new_gives_empty_valid_map : forall (V : Type) (c : nat), 4 <= c ->
  exists b, b_new V c = Some b /\ Inv b /\ cap b = c /\ contents (root b) = [] /\
    check_invariants_detailed (flatten b) = Ok None.
Proof.
  intros V c Hc. destruct (new_inv V Hc) as (b & E & I & Hcap & C & R).
  exists b. repeat (split; [assumption|]).
  apply (detailed_complete I). apply Bridge.flatten_heap_of; assumption.
Qed.

(* each checked call, on any state satisfying the invariant, answers what the abstract map
   answers for the corresponding basic call, wrapped in Ok / Err(KeyNotFound) *)
Theorem C10_checked_calls_equal_basic_calls :
  forall (V : Type) n (b : bstate V), Good n b -> fits (n + 1) ->
    let m := contents (root b) in
    (forall z, snd (step b (OTryGet z)) = match m_get m z with Some v => URes (Some v) None | None => URes None (Some KeyNotFound) end) /\
    (forall z, snd (step b (OGetItem z)) = match m_get m z with Some v => URes (Some v) None | None => URes None (Some KeyNotFound) end) /\
    (forall z, snd (step b (ORemoveItem z)) = match m_get m z with Some v => URes (Some v) None | None => URes None (Some KeyNotFound) end
               /\ contents (root (fst (step b (ORemoveItem z)))) = m_remove m z) /\
    (forall z, snd (step b (OTryRemove z)) = match m_get m z with Some v => URes (Some v) None | None => URes None (Some KeyNotFound) end
               /\ contents (root (fst (step b (OTryRemove z)))) = m_remove m z) /\
    (forall k v, snd (step b (OTryInsert k v)) = UResOpt (Some (m_get m (kz k))) None
               /\ contents (root (fst (step b (OTryInsert k v)))) = m_insert m k v).
Proof.
  intros V n b G F. cbv zeta.
  assert (R : forall o, abstract_op o = true -> op_weight o = 1 ->
              spec_step (contents (root b)) o = (contents (root (fst (step b o))), snd (step b o))).
  { intros o A W. apply (@step_refines V n b o G); [rewrite W; exact F|exact A]. }
  repeat split; intros.
  - pose proof (R (OTryGet z) eq_refl eq_refl) as H. apply (f_equal snd) in H. cbn [spec_step snd] in H. symmetry; exact H.
  - pose proof (R (OGetItem z) eq_refl eq_refl) as H. apply (f_equal snd) in H. cbn [spec_step snd] in H. symmetry; exact H.
  - pose proof (R (ORemoveItem z) eq_refl eq_refl) as H. apply (f_equal snd) in H. cbn [spec_step snd] in H. symmetry; exact H.
  - pose proof (R (ORemoveItem z) eq_refl eq_refl) as H. apply (f_equal fst) in H. cbn [spec_step fst] in H. symmetry; exact H.
  - pose proof (R (OTryRemove z) eq_refl eq_refl) as H. apply (f_equal snd) in H. cbn [spec_step snd] in H. symmetry; exact H.
  - pose proof (R (OTryRemove z) eq_refl eq_refl) as H. apply (f_equal fst) in H. cbn [spec_step fst] in H. symmetry; exact H.
  - pose proof (R (OTryInsert k v) eq_refl eq_refl) as H. apply (f_equal snd) in H. cbn [spec_step snd] in H. symmetry; exact H.
  - pose proof (R (OTryInsert k v) eq_refl eq_refl) as H. apply (f_equal fst) in H. cbn [spec_step fst] in H. symmetry; exact H.
Qed.

(* get_many: fails iff some requested key is absent, else the values in request order
   (duplicates and the empty list included) *)
Theorem C10_get_many_spec :
  forall (V : Type) (m : amap V) (zs : list Z),
    (spec_get_many m zs = None <-> exists z, In z zs /\ m_get m z = None) /\
    (forall vs, spec_get_many m zs = Some vs -> map Some vs = map (m_get m) zs).
Proof.
  intros V m zs. induction zs as [|z zs [IH1 IH2]]; cbn [spec_get_many].
  - split; [split; [discriminate|intros (z & [] & _)]|]. intros vs H. inversion H. reflexivity.
  - destruct (m_get m z) eqn:Ez.
    + destruct (spec_get_many m zs) eqn:Er.
      * split.
        -- split; [discriminate|]. intros (z' & [Hz|Hz] & Hn); [subst; congruence|].
           assert (X : (None : option (list V)) = None) by reflexivity.
           destruct IH1 as [_ IH1']. specialize (IH1' (ex_intro _ z' (conj Hz Hn))). discriminate.
        -- intros vs H. inversion H; subst. cbn [map]. rewrite Ez. f_equal. apply IH2. reflexivity.
      * split.
        -- split; [intros _|reflexivity]. destruct IH1 as [IH1' _]. destruct (IH1' eq_refl) as (z' & Hz & Hn).
           exists z'. split; [right; exact Hz|exact Hn].
        -- intros vs H. discriminate.
    + split.
      * split; [intros _; exists z; split; [left; reflexivity|exact Ez]|reflexivity].
      * intros vs H. discriminate.
Qed.

(* on every reachable state no checked call reports DataIntegrity / ArenaError /
   CorruptedTree and validate_for_operation succeeds: the whole history, which may mix
   checked and unchecked calls, produces only Ok / KeyNotFound results, by refinement *)
Theorem C10_never_integrity_error :
  forall (V : Type) (c : nat) (ops : list (op V)), 4 <= c -> fits (ops_weight ops) ->
    forallb (@abstract_op V) ops = true ->
    exists b0, b_new V c = Some b0 /\
      snd (run b0 ops) = snd (spec_run [] ops) /\
      validate_for_operation (flatten (fst (run b0 ops))) = Ok None.
Proof.
  intros V c ops Hc F A. destruct (@refines_amap V c ops Hc F A) as (b0 & E & H).
  exists b0. split; [exact E|]. split; [rewrite H; reflexivity|].
  destruct (@reachable_state V c ops Hc F) as (b & E' & I & R & HO & _).
  unfold state_after in E'. rewrite E in E'. inversion E'; subst b.
  destruct (validate_same (flatten (fst (run b0 ops)))) as [_ B]. rewrite B. apply (detailed_complete I HO).
Qed.

Definition C10_nonvacuous := ReachExamples.ex_agree.

(* Default / with_default_capacity (capacity 16) always succeed *)
Theorem C10_default_capacity_accepted : forall (V : Type), exists b, b_new V DEFAULT_CAPACITY = Some b /\ Inv b /\ contents (root b) = [].
Proof. exact RustExtra.default_capacity_accepted. Qed.

(* batch_insert is, in the specification, exactly the corresponding insert calls *)
Theorem C10_batch_is_iterated_insert : forall (V : Type) (items : list (key * V)) (m : AMap.amap V),
  let r := spec_run m (map (fun kv => OInsert (fst kv) (snd kv)) items) in
  fst (spec_batch m items) = fst r /\ map (@UOpt V) (snd (spec_batch m items)) = snd r.
Proof. exact RustExtra.batch_is_iterated_insert. Qed.

(* no output of any history carries an integrity error, and every validator call accepts (no abstract_op hypothesis) *)
Theorem C10_outputs_never_integrity : forall (V:Type) c (ops:list (op V)), 4 <= c -> fits (ops_weight ops) ->
  exists b0, b_new V c = Some b0 /\ forall x, In x (snd (run b0 ops)) ->
    match x with
    | URes _ (Some (DataIntegrity _)) | UResOpt _ (Some (DataIntegrity _))
    | UResList _ (Some (DataIntegrity _)) | UResOptList _ (Some (DataIntegrity _)) => False
    | UValidate ci cid vfo => ci = true /\ cid = None /\ vfo = None
    | _ => True end.
Proof. exact RustExtra2.outputs_never_integrity. Qed.
