(* C15 — the safe node/arena helper API cannot be used to reach undefined behaviour.
   The helpers (get_leaf_mut, get_branch_mut, set_leaf_next, allocate_*/deallocate_*,
   LeafNode push/take/append, new_root, public iterator fields ...) can put the map into
   essentially any state; the theorems therefore quantify over EVERY value of the raw
   heap type and EVERY iterator state, not over reachable ones.  `UB site` is the model's
   outcome for an unchecked access whose documented safety precondition is false.
   Partial in one labelled respect: the theorem covers the crate's unchecked accesses
   (their preconditions); that everything else is free of UB is Rust's guarantee for safe
   code.  The correspondence check ties the single unchecked site to the code (assertion
   hooks inside the unchecked accessors, census of `unsafe` sites).
   OBLIGATIONS: C15_readers_total C15_iterator_steps_total C15_read_ops_never_ub C15_guard_is_needed C15_nonvacuous C15_legacy_refuted C15_arena_mutators_total *)
From BPT Require Import Common.Base Rust.Arena Rust.Tree Rust.Heap Rust.Readers Rust.Run Rust.NoUB.

(* every map-level reader, on any heap whatsoever *)
Theorem C15_readers_total : forall (V : Type) (h : heap V),
  (forall z, no_ub (h_get h z)) /\ (forall z, no_ub (h_contains h z)) /\ (forall z d, no_ub (h_get_or_default h z d)) /\
  no_ub (len h) /\ no_ub (is_empty h) /\ no_ub (get_first_leaf_id h) /\
  no_ub (leaf_count h) /\ no_ub (count_nodes_in_tree h) /\ no_ub (leaf_sizes h) /\ no_ub (collect_leaf_ids h) /\
  no_ub (items h) /\ no_ub (items_fast h) /\ no_ub (keys h) /\ no_ub (values h) /\ no_ub (slice h) /\
  no_ub (first h) /\ no_ub (last h) /\
  (forall lo hi, no_ub (range_collect h lo hi)) /\ (forall s e, no_ub (items_range_collect h s e)) /\
  (forall id idx e, no_ub (from_position_collect h id idx e)) /\
  no_ub (check_invariants h) /\ no_ub (check_invariants_detailed h) /\ no_ub (validate h) /\ no_ub (validate_for_operation h).
Proof. exact readers_no_ub. Qed.

(* every single next() of every iterator kind, from any (even hand-built) iterator state *)
Theorem C15_iterator_steps_total : forall (V : Type) (h : heap V),
  (forall s, no_ub (item_next h s)) /\ (forall s, no_ub (fast_next h s)) /\ (forall s, no_ub (range_next h s)) /\
  (forall (s : iter V) (l : leaf V), no_ub (try_get s l)).
Proof.
  intros V h. repeat split; intros.
  - apply item_next_no_ub. - apply fast_next_no_ub. - apply range_next_no_ub. - apply try_get_no_ub.
Qed.

(* the operation language used by the correspondence check: a read-only operation never
   answers the UB marker, whatever the state *)
Theorem C15_read_ops_never_ub : forall (V : Type) (b : bstate V) (o : op V),
  (match o with OInsert _ _ | ORemove _ | OGetMutWrite _ _ | OClear | ORemoveItem _ | OTryInsert _ _
              | OTryRemove _ | OBatchInsert _ => False | _ => True end) ->
  snd (step b o) <> UUB.
Proof. exact step_readers_no_ub. Qed.

(* the defect that was repaired: with the guard on keys.len() alone the same step does
   reach the unchecked access out of bounds *)
Definition C15_guard_is_needed := try_get_guard_needed.
(* damaged heaps on which the readers evaluate (to something other than UB) *)
Definition C15_nonvacuous :=
  (items_dmg_short_values, items_fast_dmg_short_values, items_dmg_dangling_next, items_dmg_cycle).

From BPT Require Import Legacy.RustLegacy.
From BPT Require Import Rust.HeapOps.
From BPT Require Extra.RustExtra2.
(* the iterators as pinned reached out-of-bounds unchecked accesses after one safe helper
   call (repaired in /repo) *)
Definition C15_legacy_refuted := (d11_refuted, d11_sites, items_no_ub_refuted, items_fast_no_ub_refuted).

(* a later safe call that is a MUTATOR on a damaged map: no unchecked access either *)
Theorem C15_arena_mutators_total : forall (V:Type) (h:heap V) k v z,
  no_ub (insert_A h k v) /\ no_ub (remove_A h z) /\ no_ub (get_mut_write_A h z v).
Proof. exact RustExtra2.arena_mutators_total. Qed.
