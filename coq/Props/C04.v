(* C04 — the tree stays a valid, balanced B+ tree after every mutation.
   For every capacity >= 4 and every history (below `fits`) the state reached satisfies
   Inv (Rust/InvDefs.v), sentence by sentence: Ord - every node's keys strictly ascending,
   each separator bounds its subtrees (left smaller, right greater or equal); Shape - all
   leaves at one depth, every non-root node holds between c/2 (written literally, not
   through the crate's min_keys()) and c keys, a branch root has at least two children,
   every branch has one more child than keys; Chain - the leaf chain visits exactly the
   leaves in left-to-right order and ends; the validators accept the state; and the height
   is logarithmic: a tree of height h >= 1 holds at least 2*(c/2)*(c/2+1)^(h-1) entries.
   OBLIGATIONS: C04_reachable_states_valid C04_validators_accept C04_height_logarithmic C04_every_step_preserves C04_nonvacuous C04_chain_walk_visits_leaves *)
From BPT Require Import Common.Base Common.AMap Rust.Arena Rust.Tree Rust.Heap Rust.Readers Rust.Run
     Rust.InvDefs Rust.Repr Rust.Spec Rust.ReachDefs Rust.TreeFactsI Rust.Counting Rust.ValidAccept Rust.ValidSound
     Rust.Reach Props.Reachable.
From BPT Require Extra.RustExtra.

Theorem C04_reachable_states_valid :
  forall (V : Type) (c : nat) (ops : list (op V)), 4 <= c -> fits (ops_weight ops) ->
    exists b, state_after c ops = Some b /\ cap b = c /\
      ord None None (root b) /\ (exists h, shape c true h (root b)) /\ chain_ok (root b) /\
      meta_ok (lmeta b) (leaf_ids (root b)) /\ meta_ok (bmeta b) (branch_ids (root b)).
Proof.
  intros V c ops Hc F. destruct (@reachable_state V c ops Hc F) as (b & E & I & R & HO & Hcap).
  exists b. split; [exact E|]. split; [exact Hcap|]. destruct I as [I1 I2 I3 I4 I5 I6].
  rewrite Hcap in I3. split; [exact I2|]. split; [exact I3|]. split; [exact I6|]. split; [exact I4|exact I5].
Qed.

Theorem C04_validators_accept :
  forall (V : Type) (c : nat) (ops : list (op V)), 4 <= c -> fits (ops_weight ops) ->
    exists b, state_after c ops = Some b /\
      check_invariants (flatten b) = Ok true /\ check_invariants_detailed (flatten b) = Ok None /\
      validate (flatten b) = Ok None /\ validate_for_operation (flatten b) = Ok None.
Proof.
  intros V c ops Hc F. destruct (@reachable_state V c ops Hc F) as (b & E & I & R & HO & _).
  exists b. split; [exact E|].
  pose proof (check_node_complete I HO) as H1. pose proof (detailed_complete I HO) as H2.
  destruct (validate_same (flatten b)) as [A B]. rewrite A, B. auto.
Qed.

Theorem C04_height_logarithmic :
  forall (V : Type) (c : nat) (ops : list (op V)), 4 <= c -> fits (ops_weight ops) ->
    exists b, state_after c ops = Some b /\
      (1 <= height (root b) ->
       2 * (c / 2) * (c / 2 + 1) ^ (height (root b) - 1) <= length (contents (root b))).
Proof.
  intros V c ops Hc F. destruct (@reachable_state V c ops Hc F) as (b & E & I & R & HO & Hcap).
  exists b. split; [exact E|]. intros Hh. destruct (inv_shape I) as [h Sh]. rewrite Hcap in Sh.
  rewrite (shape_height Sh) in *. apply height_log; assumption.
Qed.

(* preservation by a single insert / remove / clear (or any other call) *)
Theorem C04_every_step_preserves :
  forall (V : Type) n (b : bstate V) (o : op V), Good n b -> fits (n + op_weight o) ->
    Good (n + op_weight o) (fst (step b o)) /\ out_is_error (snd (step b o)) = false /\
    cap (fst (step b o)) = cap b.
Proof. exact step_good. Qed.

Definition C04_nonvacuous := (ReachExamples.ex_agree, CountingExamples.ex_counts).

(* at ARENA level: the walk from get_first_leaf_id along next visits exactly the tree's leaves in order, and the arenas represent the tree *)
Theorem C04_chain_walk_visits_leaves : forall (V : Type) (c : nat) (ops : list (op V)), 4 <= c -> fits (ops_weight ops) ->
  exists b fid, state_after c ops = Some b /\ get_first_leaf_id (flatten b) = Ok (Some fid) /\
    chain_ids (S (S (length (store (hleaves (flatten b)))))) (flatten b) (Some fid) = Ok (leaf_ids (root b)) /\
    repr (flatten b) (root b).
Proof. exact RustExtra.chain_walk_visits_leaves. Qed.
