(* C07 -- Python BPlusTreeMap behaves like dict for every call history.
   "For any sequence of item assignment, lookup, deletion, get, membership, len, bool, pop,
   popitem, setdefault, update, copy and clear calls on the pure-Python BPlusTreeMap (any
   capacity >= 4), results and raised KeyErrors equal those of a dict driven by the same
   sequence: a stored None is a value like any other, get returns the default only for
   absent keys, popitem removes the smallest key, a copy is independent of the original,
   and len works for any number of entries. Capacities below 4 are rejected with
   InvalidCapacityError."

   This file contains only pinned statements, each closed by a lemma of Py/*.v.
   Model: Py/Tree.v + Py/Run.v, variant del_by_value = false (deletion success reported by
   presence, as the code does since the D12 repair 61d1dd3; the variant that reports it by the
   popped value -- the sources before that repair -- is refuted in Py/LegacyRefuted.v).  Reference: Py/Spec.v, a dict observed through calls = a sorted
   association list per map.  Quantification: every finite list of calls (constructor,
   bulk load and range calls included), every capacity, several maps; no bound on sizes.
   OBLIGATIONS: C07_history_behaves_like_dict C07_no_internal_error C07_delitem C07_stored_none_is_a_value C07_get_default_only_when_absent C07_getitem_keyerror_iff_absent C07_pop C07_popitem_removes_smallest C07_setdefault C07_update C07_copy_is_independent C07_clear C07_len_any_size C07_bool C07_capacity_check C07_legacy_refuted C07_nonvacuous C07_contains C07_popitem_keeps_capacity C07_len_call_depth_constant C07_legacy_recursive_len_depth_unbounded *)
From Coq Require Import List Arith ZArith NArith Lia Bool.
From BPT Require Import Common.Base Common.AMap Rust.Tree Rust.InvDefs
  Py.Tree Py.Run Py.Inv Py.Spec Py.NewProofs Py.InsertProofs Py.DeleteProofs Py.ReaderProofs
  Py.ReachFinal Py.Corollaries Py.LegacyRefuted.
From BPT Require Import Extra.PyExtra.
Import ListNotations.

(* Every history, started from nothing (the first call is normally a constructor call),
   produces call by call the outputs of the reference (values, KeyError, TypeError for
   pop's arity, InvalidCapacityError), and at the end every map of the model satisfies the
   invariant and holds exactly the reference's entries (same key objects, same values). *)
Theorem C07_history_behaves_like_dict : forall ops : list op,
  snd (run false w0 ops) = snd (spec_run aw0 ops) /\
  world_rel (fst (run false w0 ops)) (fst (spec_run aw0 ops)).
Proof. exact py_history_refines. Qed.

(* no call of any history raises ValueError / IndexError / AttributeError, fails to
   terminate, or leaves the model *)
Theorem C07_no_internal_error : forall ops : list op,
  Forall clean_out (snd (run false w0 ops)).
Proof. exact history_no_internal_error. Qed.

(* del m[k]: KeyError exactly when absent (reported flag = presence); the entry is removed,
   every other entry untouched *)
Theorem C07_delitem : forall s z, PyInv s ->
  exists s', py_delitem false s z = Ok (s', is_some (m_get (pcontents s) z)) /\ PyInv s' /\
    pcontents s' = m_remove (pcontents s) z /\
    tcap s' = tcap s /\ tleaves s' = tleaves s /\ tcache s' = tcache s /\ tnext s' = tnext s.
Proof. exact py_delitem_spec. Qed.

Theorem C07_stored_none_is_a_value : forall s z, PyInv s ->
  m_get (pcontents s) z = Some PNone ->
  py_getitem s z = Ok (Some PNone) /\ (forall d, py_get s z d = Ok PNone) /\
  py_contains s z = Ok true.
Proof. exact stored_none_is_a_value. Qed.

Theorem C07_get_default_only_when_absent : forall s z d, PyInv s ->
  (forall v, m_get (pcontents s) z = Some v -> py_get s z d = Ok v) /\
  (m_get (pcontents s) z = None -> py_get s z d = Ok d).
Proof. exact get_default_only_when_absent. Qed.

(* m[k]: the stored value, or KeyError (None) exactly when absent *)
Theorem C07_getitem_keyerror_iff_absent : forall s z, PyInv s ->
  py_getitem s z = Ok (m_get (pcontents s) z).
Proof. exact getitem_keyerror_iff_absent. Qed.

Theorem C07_pop : forall s z args, PyInv s -> length args <= 1 ->
  exists s', py_pop false s z args =
      Ok (s', match m_get (pcontents s) z with Some v => Some v | None => hd_error args end) /\
    PyInv s' /\ pcontents s' = m_remove (pcontents s) z /\ tcap s' = tcap s.
Proof. exact py_pop_final. Qed.

Theorem C07_popitem_removes_smallest : forall s, PyInv s ->
  exists s', py_popitem false s = Ok (s', hd_error (pcontents s)) /\ PyInv s' /\
    pcontents s' = tl (pcontents s) /\
    (forall e e', hd_error (pcontents s) = Some e -> In e' (pcontents s') ->
       (kz (fst e) < kz (fst e'))%Z).
Proof. exact popitem_removes_smallest. Qed.

Theorem C07_setdefault : forall s k d, PyInv s ->
  exists s', py_setdefault s k d =
      Ok (s', match m_get (pcontents s) (kz k) with Some v => v | None => d end) /\
    PyInv s' /\ tcap s' = tcap s /\
    pcontents s' = match m_get (pcontents s) (kz k) with
                   | Some _ => pcontents s | None => m_insert (pcontents s) k d end.
Proof. exact py_setdefault_final. Qed.

Theorem C07_update : forall l s, PyInv s ->
  exists s', py_update s l = Ok s' /\ PyInv s' /\
    pcontents s' = m_insert_all (pcontents s) l /\ tcap s' = tcap s.
Proof. exact py_update_final. Qed.

(* copy(): same entries in a new map; afterwards a call changes only the map it is directed
   at (any variant of the model) *)
Theorem C07_copy_is_independent :
  (forall s, PyInv s -> exists s', py_copy s = Ok s' /\ PyInv s' /\
      pcontents s' = pcontents s /\ tcap s' = tcap s) /\
  (forall lg w o n, n <> op_target w o ->
      wlookup (maps (fst (step lg w o))) n = wlookup (maps w) n).
Proof. exact copy_is_independent. Qed.

Theorem C07_clear : forall s, PyInv s ->
  PyInv (py_clear s) /\ tcap (py_clear s) = tcap s /\ pcontents (py_clear s) = [].
Proof. exact py_clear_spec. Qed.

(* len: the number of entries, for any number of entries (no recursion-depth or size
   parameter occurs) *)
Theorem C07_len_any_size : forall s, PyInv s -> py_len s = Ok (length (pcontents s)).
Proof. exact py_len_spec. Qed.

Theorem C07_bool : forall s, PyInv s -> py_bool s = Ok (Nat.ltb 0 (length (pcontents s))).
Proof. exact py_bool_spec. Qed.

Theorem C07_capacity_check : forall c,
  (c < 4 -> py_new c = Panic E_InvalidCapacity /\
            forall l, from_sorted_items l c = Panic E_InvalidCapacity) /\
  (4 <= c -> exists s, py_new c = Ok s /\ PyInv s /\ tcap s = c /\ pcontents s = []).
Proof. exact capacity_check. Qed.

(* the code as it stands (deletion success judged by the popped value): t[1] = None; del t[1]
   raises KeyError *)
Theorem C07_legacy_refuted :
  snd (run true w0 d12_witness_c07) <> snd (spec_run aw0 d12_witness_c07).
Proof. exact py_delete_none_refuted. Qed.

(* the hypotheses are satisfiable by non-trivial states: a history using every call kind
   builds two three-level maps (some values None) and a bulk-loaded one; they satisfy PyInv
   and the outputs are the reference's *)
Definition C07_nonvacuous :=
  (demo_heights, demo_outputs_tail, demo_states_inv, demo_refines, DeleteExample.delete_nonvacuous).

(* membership test = presence in the contents *)
Theorem C07_contains : forall s z, PyInv s -> py_contains s z = Ok (is_some (m_get (pcontents s) z)).
Proof. exact PyExtra.contains_spec. Qed.

Theorem C07_popitem_keeps_capacity : forall s, PyInv s ->
  exists s', py_popitem false s = Ok (s', hd_error (pcontents s)) /\ PyInv s' /\
    pcontents s' = tl (pcontents s) /\
    (forall e e', hd_error (pcontents s) = Some e -> In e' (pcontents s') ->
       (kz (fst e) < kz (fst e'))%Z) /\
    tcap s' = tcap s.
Proof. exact PyExtra.popitem_keeps_capacity. Qed.

(* len() uses a constant number of interpreter frames (ghost instrumentation of key_count, see Extra/PyExtra.v) *)
Theorem C07_len_call_depth_constant : forall s, PyInv s -> len_frames s = Ok 1.
Proof. exact PyExtra.len_frames_constant. Qed.

(* the recursive key_count of the sources before the D4 repair needs one frame per leaf: unbounded (so the theorem above is not true of it) *)
Theorem C07_legacy_recursive_len_depth_unbounded : forall n, exists s m,
  PyInv s /\ legacy_len_frames s = Ok m /\ n <= m.
Proof. exact PyExtra.legacy_len_frames_unbounded. Qed.
