(* Extraction of the executable Python-map model. Only ExtrOcamlBasic's directives are
   used: bool, option, unit, list, prod, sumbool, sumor map to OCaml's; andb/orb inlined.
   nat, N, Z, positive, comparison stay the extracted inductive types. *)
Require Extraction.
Require Import ExtrOcamlBasic.
From BPT Require Import Common.Base Rust.Tree Py.Tree Py.Run.
Extraction Language OCaml.
Set Extraction AccessOpaque.
Extraction "py_model.ml"
  Base.NULL Base.mkKey
  Py.Tree.py_new Py.Tree.E_KeyError Py.Tree.E_TypeError Py.Tree.E_InvalidCapacity
  Py.Run.w0 Py.Run.step Py.Run.run Py.Run.current.
