(* Extraction of the executable models. Only ExtrOcamlBasic's directives are used:
   bool, option, unit, list, prod, sumbool, sumor map to OCaml's; andb/orb inlined.
   nat, N, Z, positive, comparison stay the extracted inductive types. *)
Require Extraction.
Require Import ExtrOcamlBasic.
From BPT Require Import Common.Base Rust.Arena Rust.ArenaSpec Rust.Tree Rust.Heap Rust.Readers Rust.Run Rust.Damage Rust.HeapOps Rust.HeapFast.
Extraction Language OCaml.
Set Extraction AccessOpaque.
Extraction "model.ml"
  Base.NULL Base.mkKey
  ArenaSpec.astep ArenaSpec.arun Arena.a_new
  Tree.b_new Tree.b_clear Heap.flatten Run.step Run.run
  Damage.apply_edit Damage.hstep HeapOps.mut_A HeapFast.flatten_fast.
