(* Extraction of the C-extension model. Only ExtrOcamlBasic's directives are used:
   bool, option, unit, list, prod, sumbool, sumor map to OCaml's; andb/orb inlined.
   nat, N, Z, positive, comparison stay the extracted inductive types. *)
Require Extraction.
Require Import ExtrOcamlBasic.
From BPT Require Import Common.Base C.Node C.Tree C.Run.
Extraction Language OCaml.
Set Extraction AccessOpaque.
Extraction "cmodel.ml"
  Base.mkKey Node.rc_get Node.nid Node.nty Node.ncap Node.nk Node.data Node.next
  Tree.tree_chain Tree.root Tree.size Tree.modc
  Run.st_init Run.step Run.run Run.finish Run.tree_init_legacy.
