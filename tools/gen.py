"""Case generators for the correspondence check. All randomness comes from one
random.Random seeded by the caller (VERIF_SEED, property id, shard)."""
import random

KINDS = "IEU"


class Hist:
    def __init__(self, hid, target, cap):
        self.hid = hid
        self.lines = [f"H {hid} {target} cap={cap}"]
        self.sid = 1          # serial number for key ids / values

    def add(self, s):
        self.lines.append(s)

    def text(self):
        return "\n".join(self.lines) + "\n"


def pick_universe(rng):
    return rng.choice([6, 8, 12, 16, 17, 24, 40, 80])


def mut_op(h, rng, U, p_ins):
    z = rng.randrange(U)
    r = rng.random()
    if r < p_ins:
        h.add(f"I {z} {h.sid} {h.sid * 10}")
        h.sid += 1
    else:
        h.add(f"R {z}")


def gen_rust_history(hid, rng, tier, extras):
    """extras: dict of op-kind -> probability for the property-specific reader ops"""
    style = rng.choice(["mix", "mix", "asc", "desc", "saw", "cluster", "big"])
    if style == "big":
        cap = rng.choice([16, 32, 64, 128, 256] if tier == "thorough" else [16, 32])
        U = rng.choice([200, 600] if tier == "quick" else [500, 3000])
        n = rng.choice([200, 400] if tier == "quick" else [1500, 4000])
    else:
        cap = rng.choice([4, 4, 4, 5, 5, 6, 7, 8, 9])
        U = pick_universe(rng)
        n = rng.choice([40, 120, 250] if tier == "quick" else [200, 600, 1200])
    h = Hist(hid, "rust", cap)
    p_extra = sum(extras.values())
    phase_ins = 0.7
    for i in range(n):
        if style == "saw" and i % 60 == 0:
            phase_ins = 0.85 if (i // 60) % 2 == 0 else 0.15
        r = rng.random()
        if r < p_extra:
            x = rng.random() * p_extra
            acc = 0.0
            for kind, p in extras.items():
                acc += p
                if x < acc:
                    emit_extra(h, rng, U, kind)
                    break
            continue
        if style == "asc":
            if rng.random() < 0.75:
                h.add(f"I {h.sid} {h.sid} {h.sid * 10}")
                h.sid += 1
            else:
                h.add(f"R {rng.randrange(max(1, h.sid))}")
        elif style == "desc":
            if rng.random() < 0.75:
                h.add(f"I {-h.sid} {h.sid} {h.sid * 10}")
                h.sid += 1
            else:
                h.add(f"R {-rng.randrange(max(1, h.sid))}")
        elif style == "cluster":
            c = rng.choice([0, 1000, -1000, 2**40, -(2**40)])
            z = c + rng.randrange(U // 2 + 1)
            if rng.random() < 0.6:
                h.add(f"I {z} {h.sid} {h.sid * 10}")
                h.sid += 1
            else:
                h.add(f"R {z}")
        elif style == "saw":
            mut_op(h, rng, U, phase_ins)
        else:
            mut_op(h, rng, U, 0.55)
    return h


def rand_key(rng, U):
    r = rng.random()
    if r < 0.08:
        return rng.choice([-1, -5, U, U + 3, 2**60, -(2**60)])
    return rng.randrange(U)


def live_keys(h):
    """keys present after the history so far (generator-side incremental replay of the mutating
    lines; only a guess used to aim operations at present keys, never an oracle)"""
    live = h.__dict__.setdefault("_live", set())
    pos = h.__dict__.get("_live_pos", 1)
    for l in h.lines[pos:]:
        t = l.split()
        if t[0] in ("I", "TI"):
            live.add(int(t[1]))
        elif t[0] in ("R", "TR", "RI"):
            live.discard(int(t[1]))
        elif t[0] == "BI":
            for it in t[1:]:
                live.add(int(it.split(":")[0]))
        elif t[0] == "X":
            live.clear()
    h._live_pos = len(h.lines)
    return sorted(live)


def emit_extra(h, rng, U, kind):
    z = rand_key(rng, U)
    if rng.random() < 0.4:
        lk = live_keys(h)
        if lk:
            z = rng.choice(lk)
    if kind == "get":
        h.add(rng.choice([f"G {z}", f"C {z}", f"D {z} {h.sid * 10 + 7}", "L", "E"]))
    elif kind == "getmut":
        h.add(f"M {z} {h.sid * 10}")
        h.sid += 1
    elif kind == "clear":
        h.add("X")
    elif kind == "iter":
        kinds = [rng.choice(["items", "fast", "keys", "values"]) for _ in range(rng.randint(1, 4))]
        steps = []
        for _ in range(rng.randint(1, 8)):
            steps.append(f"{rng.randrange(len(kinds))}:{rng.choice([0, 1, 1, 2, 3, 5, 9, 40, 400])}")
        h.add("IT " + ",".join(kinds) + " " + " ".join(steps))
    elif kind == "slices":
        h.add(rng.choice(["SL", "FL"]))
    elif kind == "range":
        lo, hi = rand_key(rng, U), rand_key(rng, U)
        if rng.random() < 0.3:
            hi = lo + rng.choice([0, 1, -1])
        h.add(f"RG {rng.choice(KINDS)} {lo} {rng.choice(KINDS)} {hi}")
    elif kind == "irange":
        lo = "-" if rng.random() < 0.25 else str(rand_key(rng, U))
        hi = "-" if rng.random() < 0.25 else str(rand_key(rng, U))
        h.add(f"IR {lo} {hi}")
    elif kind == "frompos":
        h.add(f"FP {rng.choice([0, 0, 1, 2, 3, 5, 9])} {rng.choice([0, 0, 1, 2, 3, 4, 9])} {rng.choice(KINDS)} {rand_key(rng, U)}")
    elif kind == "validate":
        h.add("V")
    elif kind == "intro":
        h.add("Q")
    elif kind == "checked":
        r = rng.random()
        if r < 0.15:
            h.add(f"TG {z}")
        elif r < 0.3:
            h.add(f"GI {z}")
        elif r < 0.45:
            n = rng.choice([0, 1, 2, 3, 5])
            lk = live_keys(h)
            q = rng.random()
            if lk and q < 0.18:
                # request SHAPES: ascending / descending runs of present keys, short and long (longer than a node, longer
                # than a leaf chain segment), with an absent key nowhere, at the head, in the middle or at the tail
                run = sorted(lk)
                a = rng.randrange(len(run))
                ks = run[a:a + rng.choice([2, 5, 9, 17, 33, 70])]
                if rng.random() < 0.25:
                    ks.reverse()
                where = rng.choice(["none", "none", "head", "mid", "tail", "tail", "tail2"])
                absent = [k for k in (run[-1] + 1, run[-1] + 7, run[0] - 1, ks[-1] + 1, ks[0] - 1) if k not in set(lk)]
                lks = set(lk)
                gap = [k for k in range(min(ks), max(ks)) if k not in lks] if max(ks) - min(ks) < 500 else \
                      [k + 1 for k in ks if k + 1 not in lks and k + 1 < max(ks)]
                if where == "head" and absent:
                    ks.insert(0, min(absent))
                elif where == "mid" and gap:
                    ks = sorted(ks + [rng.choice(gap)], reverse=(len(ks) > 1 and ks[0] > ks[-1]))
                elif where == "tail" and absent:
                    ks.append(max(absent))
                elif where == "tail2":
                    ks += [run[-1] + 3, run[-1] + 4]
                h.add("GM " + " ".join(str(k) for k in ks[:90]))
            elif lk and q < 0.6:
                # all requested keys present: distinct, or with repeats and possibly longer than the map
                if q < 0.3:
                    ks = rng.sample(lk, min(len(lk), n))
                else:
                    ks = [rng.choice(lk) for _ in range(rng.choice([2, 3, len(lk) + 1, 2 * len(lk) + 1]))][:40]
                if q > 0.5:
                    ks.insert(rng.randrange(len(ks) + 1), rand_key(rng, U))     # plus one arbitrary key
                h.add("GM " + " ".join(str(k) for k in ks))
            else:
                h.add("GM " + " ".join(str(rand_key(rng, U)) for _ in range(n)))
        elif r < 0.6:
            h.add(f"RI {z}")
        elif r < 0.78:
            h.add(f"TI {z} {h.sid} {h.sid * 10}")
            h.sid += 1
        elif r < 0.9:
            h.add(f"TR {z}")
        else:
            items = []
            for _ in range(rng.choice([0, 1, 2, 4, 7])):
                items.append(f"{rand_key(rng, U)}:{h.sid}:{h.sid * 10}")
                h.sid += 1
            h.add("BI " + " ".join(items))


EXTRAS = {
    # the calls a property speaks about, plus a thin stream of every other kind of call: a defect in one entry point
    # often shows only through another (a write through get_mut seen by iteration, a checked call seen by the arenas)
    "C01": {"get": 0.18, "getmut": 0.05, "clear": 0.004, "checked": 0.02},
    "C02": {"iter": 0.08, "slices": 0.05, "clear": 0.003, "getmut": 0.04, "checked": 0.02},
    "C03": {"range": 0.12, "irange": 0.05, "frompos": 0.05, "clear": 0.003, "getmut": 0.03, "checked": 0.02},
    "C04": {"validate": 0.04, "clear": 0.004, "checked": 0.04, "getmut": 0.01},
    "C05": {"iter": 0.05, "slices": 0.03, "range": 0.04, "irange": 0.02, "frompos": 0.03,
            "validate": 0.03, "get": 0.03, "clear": 0.003, "checked": 0.04, "getmut": 0.02, "intro": 0.02},
    "C06": {"intro": 0.06, "clear": 0.006, "checked": 0.05, "validate": 0.02},
    "C10": {"checked": 0.25, "validate": 0.03, "clear": 0.003, "getmut": 0.01, "iter": 0.01},
    "C11": {"getmut": 0.06, "clear": 0.006, "get": 0.03, "checked": 0.08, "iter": 0.01},
}


def gen_rust(prop, seed, shard, n_hist, tier):
    rng = random.Random(f"{prop}-{seed}-{shard}")
    out = []
    for i in range(n_hist):
        h = gen_rust_history(f"{shard}.{i}", rng, tier, EXTRAS.get(prop, {}))
        if prop == "C10" and rng.random() < 0.4:
            # drain the map through ONE of the checked removers only (every merge / root collapse is then
            # driven by that call alone), validating as it goes, then refill through try_insert / batch_insert
            lk = live_keys(h)
            if 0 < len(lk) <= 400:
                op = rng.choice(["RI", "TR", "RI"])
                order = rng.choice(["asc", "desc", "rand"])
                ks = sorted(lk, reverse=(order == "desc"))
                if order == "rand":
                    rng.shuffle(ks)
                for j, k in enumerate(ks):
                    h.add(f"{op} {k}")
                    if j % 3 == 2:
                        h.add("V")
                h.add("V")
                h.add(f"{op} {ks[0]}")
                for k in ks[:12]:
                    h.add(f"TI {k} {h.sid} {h.sid * 10}")
                    h.sid += 1
                h.add("V")
        out.append(h)
    return out


def gen_capacity_histories(seed):
    """C10: constructors over capacity arguments 0..4096 (one tiny history each)"""
    out = []
    for c in range(0, 4097):          # every capacity argument of the property's range
        h = Hist(f"cap{c}", "rust", c)
        h.add("I 1 1 10")
        h.add("L")
        h.add("V")
        out.append(h)
    return out


def gen_arena_history(hid, rng, tier):
    h = Hist(hid, "arena", 0)
    n = rng.choice([30, 100, 300] if tier == "quick" else [300, 1000, 3000])
    issued = []
    nxt = 1
    style = rng.choice(["mix", "mix", "churn", "grow"])
    for _ in range(n):
        r = rng.random()
        def some_handle():
            q = rng.random()
            if issued and q < 0.75:
                return rng.choice(issued)
            if q < 0.85:
                return rng.randrange(0, len(issued) + 4)
            return rng.choice([4294967295, 4294967294, 2**31, 10**6])
        p_alloc = {"mix": 0.35, "churn": 0.45, "grow": 0.7}[style]
        if r < p_alloc:
            h.add(f"A alloc {nxt}")
            nxt += 1
            issued.append(len(issued))  # plausible handle values: 0..k
        elif r < p_alloc + 0.25:
            h.add(f"A {rng.choice(['free', 'free', 'free_d', 'free_nr'])} {some_handle()}")
        elif r < p_alloc + 0.35:
            h.add(f"A get {some_handle()}")
        elif r < p_alloc + 0.42:
            h.add(f"A set {some_handle()} {nxt}")
            nxt += 1
        elif r < p_alloc + 0.48:
            h.add(f"A has {some_handle()}")
        elif r < p_alloc + 0.56:
            h.add("A " + rng.choice(["len", "ac", "empty", "fc", "stats"]))
        elif r < p_alloc + 0.57:
            h.add("A clear")
        elif r < p_alloc + 0.585:
            h.add("A compact")
        else:
            h.add(f"A free {some_handle()}")
    return h


def gen_arena(seed, shard, n_hist, tier):
    rng = random.Random(f"C16-{seed}-{shard}")
    return [gen_arena_history(f"{shard}.{i}", rng, tier) for i in range(n_hist)]


# ---------------------------------------------------------------------------- C14 / C15
BIG = 10 ** 9


def build_valid(h, rng, cap):
    """a history that builds a multi-level map; returns nothing (ops appended to h)"""
    n = rng.choice([0, 3, cap, 3 * cap, 8 * cap, 20 * cap])
    U = max(4, n * 2)
    for _ in range(n):
        h.add(f"I {rng.randrange(U)} {h.sid} {h.sid * 10}")
        h.sid += 1
    for _ in range(rng.choice([0, 0, n // 4, n // 2])):
        h.add(f"R {rng.randrange(U)}")
    return U


DAMAGE_KINDS = ["unsorted_leaf", "unsorted_branch", "dup_leaf", "dup_branch", "count_vpop", "count_kpop",
                "count_pushk", "count_pushv", "overfill", "overfill_branch", "overfill_branch_valid", "underfill_leaf", "underfill_branch", "keyout_lo", "keyout_hi",
                "child_pop", "child_dup", "branch_nochild", "badref_child", "badref_root", "chain_trunc", "chain_skip",
                "chain_misorder", "chain_unalloc", "orphan_leaf", "orphan_branch", "none"]


def damage_lines(kind, rng, cap, h, p=None, bp=None, ki=None, npush=None):
    # positions and indexes are drawn blindly; an edit that does not apply is a no-op.
    # wide ranges so that last children / rightmost leaves / last keys are hit as well
    if p is None:
        p = rng.choice([0, 0, 1, 1, 2, 3, 4, 5, 6, 7, 9, 12])
    if bp is None:
        bp = rng.choice([0, 0, 1, 2, 3, 4])
    if ki is None:
        ki = rng.randrange(0, cap)
    if kind == "unsorted_leaf":
        return [rng.choice([f"DMG LK {p} 1 {-BIG}", f"DMG LK {p} 0 {BIG}", f"DMG LK {p} {ki + 1} {-BIG}", f"DMG LK {p} {ki} {BIG}"])]
    if kind == "unsorted_branch":
        return [rng.choice([f"DMG BK {bp} 1 {-BIG}", f"DMG BK {bp} 0 {BIG}", f"DMG BK {bp} {ki + 1} {-BIG}", f"DMG BK {bp} {ki} {BIG}"])]
    if kind == "dup_leaf":
        i = rng.choice([0, 1, ki])
        return [f"DMG LKC {p} {i + 1} {i}"]
    if kind == "dup_branch":
        i = rng.choice([0, ki])
        return [f"DMG BKC {bp} {i + 1} {i}"]
    if kind == "count_pushv":
        return [f"DMG LPUSHV {p} {h.sid * 10}"]
    if kind == "count_vpop":
        return [f"DMG LVPOP {p}"]
    if kind == "count_kpop":
        return [f"DMG LKPOP {p}"]
    if kind == "count_pushk":
        return [f"DMG LPUSHK {p} {BIG} {h.sid}"]
    if npush is None:
        # exactly one above capacity needs the right count for the node's occupancy: vary it
        npush = rng.choice([cap + 1, rng.randint(1, cap + 1)])
    if kind == "overfill":
        out = []
        for i in range(npush):
            out.append(f"DMG LPUSH {p} {BIG + i} {h.sid} {h.sid * 10}")
            h.sid += 1
        return out
    if kind == "overfill_branch":
        out = []
        for i in range(npush):
            out.append(f"DMG BPUSH {bp} {BIG + i} {h.sid}")
            h.sid += 1
        return out
    if kind == "overfill_branch_valid":
        # whole, valid leaves are appended (with separators) to a branch whose last child is a
        # leaf: on the rightmost bottom branch nothing but the branch's key count is wrong
        out = []
        n = (cap + 1) // 2
        for i in range(npush):
            out.append(f"DMG BPUSHL {bp} {n} {BIG + 100 * i} {h.sid} {h.sid * 10}")
            h.sid += n
        return out
    if kind == "underfill_leaf":
        return [f"DMG LTRUNC {p} {rng.choice([0, 1, max(0, cap // 2 - 1)])}"]
    if kind == "underfill_branch":
        return [f"DMG BTRUNC {max(1, bp)} {rng.choice([0, 1, max(0, cap // 2 - 1)])}"]
    if kind == "keyout_lo":
        return [f"DMG LK {max(1, p)} 0 {-BIG}"]
    if kind == "keyout_hi":
        return [f"DMG LLK {p} {BIG}"]
    if kind == "branch_nochild":
        return [f"DMG BTRUNC {bp} 0", f"DMG BCPOP {bp}"]
    if kind == "child_pop":
        return [f"DMG BCPOP {bp}"]
    if kind == "child_dup":
        return [f"DMG BCDUP {bp}"]
    if kind == "badref_child":
        return [f"DMG BREF {bp} {rng.choice([0, 1, 2])} {rng.choice([100000, 4294967295, 7777])}"]
    if kind == "badref_root":
        return [f"DMG ROOT {rng.choice('LB')} {rng.choice([100000, 4294967295])}"]
    if kind == "chain_trunc":
        return [f"DMG LNEXT {p} NULL"]
    if kind == "chain_skip":
        return [f"DMG LNEXT {p} p{p + 2}"]
    if kind == "chain_misorder":
        return [f"DMG LNEXT {p} p{p + 2}", f"DMG LNEXT {p + 2} p{p + 1}", f"DMG LNEXT {p + 1} p{p + 3}"]
    if kind == "chain_unalloc":
        return [f"DMG LNEXT {p} {rng.choice([100000, 4294967294])}"]
    if kind == "orphan_leaf":
        return ["DMG ORPHANL"]
    if kind == "orphan_branch":
        return ["DMG ORPHANB"]
    return []


LEAF_KINDS = ["unsorted_leaf", "dup_leaf", "count_vpop", "count_kpop", "count_pushk", "count_pushv", "overfill",
              "underfill_leaf", "keyout_lo", "keyout_hi", "chain_trunc", "chain_skip", "chain_misorder", "chain_unalloc"]
BRANCH_KINDS = ["unsorted_branch", "dup_branch", "underfill_branch", "overfill_branch", "overfill_branch_valid", "branch_nochild", "child_pop", "child_dup", "badref_child"]


def gen_c14_sweep(seed, shard, nshards):
    """systematic part: a few fixed builds (three and four levels) x every damage kind x every
    node position, one tiny history each; sharded round-robin"""
    rng = random.Random(f"C14-sweep-{seed}")
    builds = [(4, list(range(40))), (5, list(range(59, -1, -1))), (4, [(7 * i) % 31 for i in range(31)]),
              (6, list(range(100))), (4, list(range(10))), (5, list(range(14))), (7, list(range(20)))]
    out, n = [], 0
    for bi, (cap, keys) in enumerate(builds):
        combos = [(k, p_, None, None, None) for k in LEAF_KINDS for p_ in range(0, 24)]
        combos += [(k, None, bp_, ki_, None) for k in BRANCH_KINDS for bp_ in range(0, 12) for ki_ in (0, 1, cap - 1)]
        combos += [(k, None, None, None, None) for k in ("badref_root", "orphan_leaf", "orphan_branch")]
        # every number of pushed entries: reaches exactly capacity+1 whatever the node's occupancy
        combos += [("overfill", p_, None, None, n_) for p_ in (0, 1, 3, 6) for n_ in range(1, cap + 2)]
        combos += [("overfill_branch", None, bp_, None, n_) for bp_ in (0, 1, 2, 4) for n_ in range(1, cap + 2)]
        combos += [("overfill_branch_valid", None, bp_, None, n_) for bp_ in range(0, 10) for n_ in range(1, cap + 2)]
        for (kind, p_, bp_, ki_, np_) in combos:
            n += 1
            if n % nshards != shard:
                continue
            h = Hist(f"sw{bi}.{n}", "rust", cap)
            for k in keys:
                h.add(f"I {k} {h.sid} {h.sid * 10}")
                h.sid += 1
            for l in damage_lines(kind, rng, cap, h, p=p_, bp=bp_, ki=ki_, npush=np_):
                h.add(l)
            h.add("V")
            h.add(f"TI {rng.randrange(len(keys))} {h.sid} {h.sid * 10}")
            h.sid += 1
            h.add(f"TR {rng.randrange(len(keys))}")
            out.append(h)
    # boundary case of "a key outside the interval its parent's separators allow": a leaf's last
    # key made EQUAL to the separator on its right, while the leaf on the right starts above that
    # separator (stale separator after a deletion), so that nothing else in the state is wrong
    if shard == 0:
        for cap in (4, 6, 8):
            half = cap // 2
            for p_ in range(0, 7):
                h = Hist(f"eqsep{cap}.{p_}", "rust", cap)
                for k in range(0, 10 * half * 12, 10):          # sparse ascending keys: leaves of cap/2 keys
                    h.add(f"I {k} {h.sid} {h.sid * 10}")
                    h.sid += 1
                sep = 10 * half * (p_ + 1)                       # first key of leaf p+1 = separator on the right of leaf p
                for j in range(1, half + 1):                     # fill leaf p+1 so that a removal does not underflow it
                    h.add(f"I {sep + j} {h.sid} {h.sid * 10}")
                    h.sid += 1
                h.add(f"R {sep}")
                h.add("V")
                h.add(f"DMG LLK {p_} {sep}")
                h.add("V")
                h.add(f"G {sep}")
                h.add(f"TI {sep + 5} {h.sid} {h.sid * 10}")
                h.sid += 1
                h.add(f"TR {sep + 1}")
                out.append(h)
    return out


def gen_c14(seed, shard, n_hist, tier):
    rng = random.Random(f"C14-{seed}-{shard}")
    out = gen_c14_sweep(seed, shard, 16) if shard < 16 else []
    for i in range(n_hist):
        cap = rng.choice([4, 4, 5, 6, 7, 8, 16])
        h = Hist(f"{shard}.{i}", "rust", cap)
        U = build_valid(h, rng, cap)
        h.add("V")
        kind = DAMAGE_KINDS[(shard * n_hist + i) % len(DAMAGE_KINDS)] if rng.random() < 0.7 else rng.choice(DAMAGE_KINDS)
        for l in damage_lines(kind, rng, cap, h):
            h.add(l)
        h.add("V")
        h.add(f"TI {rng.randrange(U)} {h.sid} {h.sid * 10}")
        h.sid += 1
        h.add(f"TR {rng.randrange(U)}")
        h.add("V")
        out.append(h)
    return out


def gen_c15(seed, shard, n_hist, tier):
    rng = random.Random(f"C15-{seed}-{shard}")
    out = []
    for i in range(n_hist):
        cap = rng.choice([4, 4, 5, 6, 8])
        h = Hist(f"{shard}.{i}", "rust", cap)
        U = build_valid(h, rng, cap)
        unsorted_possible = False
        for _ in range(rng.choice([1, 1, 2, 3])):
            p = rng.choice([0, 0, 1, 2, 3])
            k = rng.choice(["LPUSHK", "LPUSHK", "LPUSHV", "LVPOP", "LKPOP", "LPUSH", "LTRUNC", "LK", "LNEXT_RAW", "LNEXT_FWD",
                            "LNEXT_NULL", "FREEL", "FREEL_NEXT", "ORPHANL", "ROOT_NULL", "ROOT_RAW", "FREEB"])
            if k in ("LPUSHK", "LPUSH", "LK"):
                unsorted_possible = True
            if k == "LPUSHK":
                h.add(f"DMG LPUSHK {p} {rng.randrange(-5, U + 5)} {h.sid}")
            elif k == "LPUSHV":
                h.add(f"DMG LPUSHV {p} {h.sid * 10}")
            elif k == "LPUSH":
                h.add(f"DMG LPUSH {p} {rng.randrange(-5, U + 5)} {h.sid} {h.sid * 10}")
            elif k == "LTRUNC":
                h.add(f"DMG LTRUNC {p} {rng.choice([0, 1])}")
            elif k == "LK":
                h.add(f"DMG LK {p} {rng.choice([0, 1])} {rng.randrange(-5, U + 5)}")
            elif k == "LNEXT_RAW":
                h.add(f"DMG LNEXT {p} {rng.choice([12345, 100000, 4294967294])}")
            elif k == "LNEXT_FWD":
                h.add(f"DMG LNEXT {p} p{p + rng.choice([2, 3])}")
            elif k == "LNEXT_NULL":
                h.add(f"DMG LNEXT {p} NULL")
            elif k == "FREEL":
                h.add(f"DMG FREEL {p}")
            elif k == "FREEL_NEXT":
                h.add(f"DMG FREEL {p + 1}")
            elif k == "ROOT_NULL":
                h.add("DMG ROOT L 4294967295")
            elif k == "ROOT_RAW":
                h.add(f"DMG ROOT {rng.choice('LB')} {rng.choice([12345, 100000])}")
            elif k == "FREEB":
                h.add(f"DMG FREEB {rng.choice([0, 1])}")
            else:
                h.add(f"DMG {k} {p}" if k in ("LVPOP", "LKPOP") else f"DMG {k}")
            h.sid += 1
        # every reader
        h.add("SL")
        h.add("FL")
        h.add("IT items,fast,keys,values 0:3 1:3 2:2 3:2 0:50 1:50 2:50 3:50")
        # binary search on an unsorted slice is unspecified in std: lookups by key are only
        # compared when the edits cannot have unsorted a node
        if not unsorted_possible:
            h.add(f"RG {rng.choice(KINDS)} {rng.randrange(-2, U + 2)} {rng.choice(KINDS)} {rng.randrange(-2, U + 2)}")
            h.add(f"IR {rng.randrange(-2, U + 2)} -")
            h.add(f"G {rng.randrange(U)}")
        h.add(f"FP {rng.choice([0, 1, 2])} {rng.choice([0, 1, 5])} {rng.choice(KINDS)} {rng.randrange(U + 2)}")
        h.add("V")
        h.add("Q")
        h.add("L")
        # "a later safe call" includes every other public entry point of the map ...
        z = rng.randrange(U)
        entry = [f"TI {z} {h.sid} {h.sid * 10}", f"TR {rng.randrange(U)}", f"BI {z}:{h.sid + 1}:5 {rng.randrange(U)}:{h.sid + 2}:6"]
        if not unsorted_possible:      # lookups by key are compared only on nodes that are still sorted (see above)
            entry += [f"GM {z} {rng.randrange(U)}", f"TG {z}", f"GI {z}", f"D {z} 7", f"C {z}"]
        for line in rng.sample(entry, 3):
            h.add(line)
        h.sid += 3
        # ... and the mutators: removals and insertions aimed at the damaged region and elsewhere (merges / borrows /
        # splits next to a freed, emptied or mis-linked node). The model does not answer for mutators on raw heaps
        # (UNSUPPORTED ends the comparison of the history); the assertion hooks in the unchecked accessors judge the
        # implementation. A split next to a freed leaf can close the leaf chain into a cycle (the new leaf reuses the
        # slot its left neighbour still points to), after which every unbounded walk (validators, slice(), last())
        # legitimately never ends: only bounded observations follow the mutators.
        for _ in range(rng.choice([2, 4, 6])):
            r = rng.random()
            z = rng.choice([p * 2, p * 2 + 1, p * 2 + 2, p * 2 + 3, rng.randrange(U), rng.randrange(U)]) if r < 0.8 else rng.randrange(-3, U + 3)
            if rng.random() < 0.7:
                h.add(f"R {z}")
            else:
                h.add(f"I {z} {h.sid} {h.sid * 10}")
                h.sid += 1
        if rng.random() < 0.4:
            # drain one end in key order: the outermost leaves merge, the outermost inner branch underflows and
            # borrows from / merges with its sibling - which a FREEB / ROOT edit above may have freed or re-pointed
            ks = list(range(0, 4 * cap)) if rng.random() < 0.5 else list(range(U - 1, max(U - 1 - 4 * cap, -1), -1))
            for k in ks:
                h.add(f"R {k}")
        h.add("IT items,fast,keys,values 0:40 1:40 2:40 3:40")
        z = rng.randrange(U)
        for line in rng.sample([f"M {z} {h.sid * 10 + 1}", f"RI {rng.randrange(U)}", f"GM {z} {rng.randrange(U)}", f"TG {z}", f"GI {z}", f"D {z} 7", f"G {z}"], 3):
            h.add(line)
        h.add("X")
        h.add("SL")
        out.append(h)
    return out


# ---------------------------------------------------------------------------- deep / large histories
def gen_deep_history(hid, rng, prop, kind, scale=1.0, force=None):
    """long grow/shrink histories: thousands of leaves at small capacities, or >= 3 levels with
    wide, unevenly filled branches at large capacities; state dumps only every few hundred
    operations (dump=K). Phases: grow (ascending / descending), overwrite pass over every key
    (hits every separator), shrink by a pattern, random churn."""
    extras = EXTRAS.get(prop, {})
    if kind == "small":
        cap = rng.choice([4, 4, 5, 6, 7])
        n = int(rng.choice([2200, 2600, 3000]) * scale)
        dump = 250
    else:
        cap = rng.choice([63, 64, 80, 100, 128])
        if force:
            cap = force.get("cap", cap)
        # three levels; with descending inserts every leaf but the first is half full, the root has
        # two branch children and the LEFT one holds between cap/2+32 and cap separators while
        # its right sibling sits at the minimum: a very uneven pair of adjacent wide branches
        lo_l, hi_l = cap + 34, cap + cap // 2 + 2
        leaves = rng.randint(lo_l, max(lo_l, hi_l)) if scale == 1.0 else int((cap + 2) * 1.6 * scale)
        n = (cap // 2) * leaves
        dump = 500
    h = Hist(hid, "rust", cap)
    h.lines[0] += f" dump={dump}"
    order = rng.choice(["asc", "desc", "desc"])
    pattern = rng.choice(["top", "bottom", "third", "all_asc", "all_desc"])
    if force:
        order = force.get("order", order)
        pattern = force.get("pattern", pattern)
    keys = list(range(n)) if order == "asc" else list(range(n - 1, -1, -1))
    U = n

    def maybe_extra():
        if extras and rng.random() < 0.01:
            kind_ = rng.choice(list(extras.keys()))
            if kind_ != "clear":
                emit_extra(h, rng, U, kind_)
    for k in keys:
        h.add(f"I {k} {h.sid} {h.sid * 10}")
        h.sid += 1
        maybe_extra()
    # overwrite pass: every key once more (equal keys must route to the entry that holds them)
    for k in range(0, n, 1 if kind == "small" else 1):
        h.add(f"I {k} {h.sid} {h.sid * 10}")
        h.sid += 1
    if pattern == "top":
        dels = list(range(n - 1, max(n - 1 - n // 3, 0), -1))
    elif pattern == "bottom":
        dels = list(range(0, n // 3))
    elif pattern == "third":
        dels = list(range(0, n, 3)) + list(range(1, n, 3))
    elif pattern == "all_asc":
        dels = list(range(n))
    else:
        dels = list(range(n - 1, -1, -1))
    for k in dels:
        h.add(f"R {k}")
        maybe_extra()
    for _ in range(int(400 * scale)):
        z = rng.randrange(U)
        if rng.random() < 0.6:
            h.add(f"I {z} {h.sid} {h.sid * 10}")
            h.sid += 1
        else:
            h.add(f"R {z}")
        maybe_extra()
    if "validate" in extras or prop in ("C04", "C10"):
        h.add("V")
    h.add("SL" if n <= 3000 else "L")
    return h


def gen_tall_history(hid, rng, prop, n):
    """a very tall tree: capacity 4 or 5 (minimum fan-out 3) and about a hundred thousand keys inserted in order give
    more than ten levels. Target "tall": the harness drives the implementation against std's BTreeMap by itself (no
    model trace - the per-call machinery costs O(n) per call on both sides; the theorems cover every size)."""
    h = Hist(hid, "tall", rng.choice([4, 4, 5]))
    h.lines[0] += f" n={n} order={rng.choice(['asc', 'asc', 'desc'])}"
    return h


def gen_deep(prop, seed, tier):
    rng = random.Random(f"deep-{prop}-{seed}")
    caps = [64, 128, 80, 100, 63]
    if tier == "quick":
        return [gen_deep_history("deep.s", rng, prop, "small"),
                gen_deep_history("deep.l", rng, prop, "large",
                                 force=dict(cap=caps[seed % len(caps)], order="desc", pattern="top")),
                gen_deep_history("deep.m", rng, prop, "large", scale=0.6),
                gen_tall_history("deep.t", rng, prop, 100000)]
    out = []
    for i in range(5):
        out.append(gen_deep_history(f"deep.s{i}", rng, prop, "small"))
        out.append(gen_deep_history(f"deep.l{i}", rng, prop, "large",
                                    force=dict(cap=caps[i], order="desc", pattern="top")))
        out.append(gen_deep_history(f"deep.m{i}", rng, prop, "large"))
    out.append(gen_tall_history("deep.t0", rng, prop, 100000))
    out.append(gen_tall_history("deep.t1", rng, prop, 250000))
    return out


# ---------------------------------------------------------------------------- C03 systematic sweep
def gen_c03_sweep(seed):
    """fixed multi-leaf maps with gaps x all 9 bound-kind pairs x ALL endpoint pairs over the key
    universe plus out-of-range sentinels; every chain position x index x end bound for
    new_from_position_with_bounds. No state dumps (dump=10^6): only outputs are compared."""
    rng = random.Random(f"C03-sweep-{seed}")
    out = []
    builds = [(4, list(range(1, 32, 2)), [5, 17]), (5, list(range(0, 45, 3)), [9, 12, 30]), (7, list(range(10, 70, 4)), [])]
    for bi, (cap, keys, dels) in enumerate(builds):
        lo_u, hi_u = min(keys) - 2, max(keys) + 2
        pts = list(range(lo_u, hi_u + 1))
        if len(pts) > 36:
            pts = sorted(set(rng.sample(pts, 30) + [lo_u, lo_u + 1, hi_u - 1, hi_u] + keys[:3] + keys[-3:]))
        chunks = [pts[i::4] for i in range(4)]
        for ci, los in enumerate(chunks):
            h = Hist(f"c03sw{bi}.{ci}", "rust", cap)
            h.lines[0] += " dump=1000000"
            for k in keys:
                h.add(f"I {k} {h.sid} {h.sid * 10}")
                h.sid += 1
            for k in dels:
                h.add(f"R {k}")
            for lo in los:
                for hi in pts:
                    for lk in KINDS:
                        for hk in KINDS:
                            if (lk == "U" and lo != los[0]) or (hk == "U" and hi != pts[0]):
                                continue
                            h.add(f"RG {lk} {lo} {hk} {hi}")
                h.add(f"IR {lo} -")
                h.add(f"IR - {lo}")
                for hi in pts[::3]:
                    h.add(f"IR {lo} {hi}")
            if ci == 0:
                for pos in range(0, 12):
                    for idx in range(0, cap + 2):
                        for ek in KINDS:
                            for e in pts[::2] if ek != "U" else [0]:
                                h.add(f"FP {pos} {idx} {ek} {e}")
            out.append(h)
    return out
