#!/usr/bin/env python3
"""Measure which lines of /repo/rust/src the correspondence histories of the Rust properties
reach (a measurement of the generator, not a check: nothing here decides a property).

   tools/coverage.py [--tier quick|thorough] [--seed N] [--props C01,C02,...]

Builds harness/rust with -C instrument-coverage (nightly toolchain, which ships llvm-cov /
llvm-profdata) into build/cov/target, runs it on every shard the checks would generate,
and writes build/cov/report.txt (per-file summary) and build/cov/uncovered.txt (source lines
with an execution count of 0, test modules excluded)."""
import os, sys, subprocess, glob, shutil, argparse, re
from concurrent.futures import ThreadPoolExecutor

ROOT = os.path.dirname(os.path.dirname(os.path.abspath(__file__)))
sys.path.insert(0, os.path.join(ROOT, "tools"))
import props as P  # noqa: E402

RUST = ["C01", "C02", "C03", "C04", "C05", "C06", "C10", "C11", "C14", "C15", "C16"]
TC = os.path.expanduser("~/.rustup/toolchains/nightly-x86_64-unknown-linux-gnu/lib/rustlib/x86_64-unknown-linux-gnu/bin")


def main():
    ap = argparse.ArgumentParser()
    ap.add_argument("--tier", default="quick")
    ap.add_argument("--seed", type=int, default=1)
    ap.add_argument("--props", default=",".join(RUST))
    a = ap.parse_args()
    cov = os.path.join(ROOT, "build", "cov")
    for d in ("ops", "prof", "out"):
        shutil.rmtree(os.path.join(cov, d), ignore_errors=True)
        os.makedirs(os.path.join(cov, d))
    env = dict(os.environ, CARGO_NET_OFFLINE="true", CARGO_TARGET_DIR=os.path.join(cov, "target"),
               RUSTFLAGS="-C instrument-coverage --cfg kentbeck_bplustree3_verif")
    r = subprocess.run(["cargo", "+nightly", "build", "--offline"], cwd=os.path.join(ROOT, "harness", "rust"),
                       env=env, stdout=subprocess.PIPE, stderr=subprocess.STDOUT)
    if r.returncode != 0:
        print(r.stdout.decode()[-3000:])
        return 2
    exe = os.path.join(cov, "target", "debug", "bpt_harness")
    jobs = []
    for prop in a.props.split(","):
        cfg = P.PROPS[prop]
        for i, text in enumerate(P.make_shards(prop, cfg, a.seed, a.tier, ROOT)):
            f = os.path.join(cov, "ops", f"{prop}-{i}.ops")
            open(f, "w").write(text)
            jobs.append((prop, i, f))

    def run(j):
        prop, i, f = j
        e = dict(os.environ, LLVM_PROFILE_FILE=os.path.join(cov, "prof", f"{prop}-{i}.profraw"))
        o = os.path.join(cov, "out", f"{prop}-{i}")
        subprocess.run([exe, f, o + ".trace", o + ".viol"], env=e, stdout=subprocess.DEVNULL,
                       stderr=subprocess.DEVNULL, timeout=3000)
        for x in (o + ".trace", o + ".viol"):
            if os.path.exists(x):
                os.remove(x)
    with ThreadPoolExecutor(16) as ex:
        list(ex.map(run, jobs))
    prof = os.path.join(cov, "all.profdata")
    subprocess.run([os.path.join(TC, "llvm-profdata"), "merge", "-sparse", "-o", prof] +
                   glob.glob(os.path.join(cov, "prof", "*.profraw")), check=True)
    shutil.rmtree(os.path.join(cov, "prof"))
    rep = subprocess.run([os.path.join(TC, "llvm-cov"), "report", exe, "-instr-profile=" + prof,
                          "--ignore-filename-regex=(harness|registry|rustc)"], stdout=subprocess.PIPE).stdout.decode()
    open(os.path.join(cov, "report.txt"), "w").write(rep)
    show = subprocess.run([os.path.join(TC, "llvm-cov"), "show", exe, "-instr-profile=" + prof,
                           "--ignore-filename-regex=(harness|registry|rustc)", "--show-line-counts-or-regions=false"],
                          stdout=subprocess.PIPE).stdout.decode()
    unc, cur, intest = [], None, False
    for line in show.split("\n"):
        if line.endswith(".rs:") and line.startswith("/"):
            cur, intest = line[:-1], False
            continue
        m = re.match(r"\s*(\d+)\|\s*([0-9.kM]*)\|(.*)", line)
        if not m or cur is None:
            continue
        src = m.group(3)
        if "#[cfg(test)]" in src:
            intest = True
        if m.group(2) == "0" and not intest:
            unc.append(f"{cur}:{m.group(1)}: {src}")
    open(os.path.join(cov, "uncovered.txt"), "w").write("\n".join(unc) + "\n")
    print(rep)
    print(f"{len(unc)} uncovered lines -> {os.path.join(cov, 'uncovered.txt')}")
    return 0


if __name__ == "__main__":
    sys.exit(main())
