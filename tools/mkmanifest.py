#!/usr/bin/env python3
"""Regenerates /verif/MANIFEST.json from the table below. Usage: mkmanifest.py C05 C14 ... (ids to claim)"""
import json, sys, os

ROOT = os.path.dirname(os.path.dirname(os.path.abspath(__file__)))
COMMON_NOTE = ("Trusted base: Coq 8.16.1 kernel (full .vo build, no -vos; no native_compute); no axioms - every pinned theorem "
               "prints 'Closed under the global context' (checked on every run, with a scan for Admitted/admit/Axiom/Parameter in the "
               "dependency cone); extraction with ExtrOcamlBasic only (bool/option/unit/list/prod/sumbool/sumor mapped, andb/orb inlined; "
               "nat/N/Z stay inductive) + OCaml 4.13.1 + extract/*.ml parsing/printing glue; the hand-written model is tied to /repo by the "
               "correspondence check of this run (harness, generators, trace comparison: trusted test glue). ")
RUST_NOTE = (COMMON_NOTE + "Modelled, not verified: Vec/slice semantics incl. binary_search on sorted slices, mem::take/replace, Rust ownership "
             "and the safety of safe code. Model bound: fewer than 2^32-1 slots per arena (hypothesis `fits`). Model B keeps children inside their "
             "parents; its arena layout (flatten) is compared slot by slot with the real arenas after every call, and Rust/Bridge.v proves the "
             "layout represents the tree. Not modelled: arena `generation`, Vec capacity, float statistics, LeafNode::insert/split/merge_from (dead "
             "duplicates), print_node_chain, error Display.")

PY_NOTE = (COMMON_NOTE + "Modelled, not verified: CPython semantics of lists, bisect on sorted lists, comparisons of totally ordered keys "
           "(no NaN, no raising or mutating __lt__), object identity. The model keeps a child inside its parent and resolves leaf references "
           "(leaves head, next links, bulk-load cache) by object id, sound when ids are distinct (part of the proved invariant PyInv) and compared on "
           "every run through the chain / head / cache positions of the real object graph. Not modelled: Python's recursion limit on tree height, "
           "leaf_count/_count_total_nodes (test helpers), batching loops of _bulk_load_sorted (reduced to 'items in order'). Theorems are about the "
           "repaired code (model variant del_by_value = false); the pre-repair variant is refuted in Py/LegacyRefuted.v.")

C_NOTE = (COMMON_NOTE + "Modelled, not verified: CPython C-API reference semantics (new vs borrowed references as documented), comparison of "
          "totally ordered keys without raising, malloc / PyTuple_New not failing. The model is at array level (every node_get_*/node_set_* and temp-array "
          "access is a checked index: OOB / NULL or wrongly typed dereference are distinguished outcomes) with a ghost reference-count map updated at "
          "exactly the INCREF/DECREF/XDECREF/CLEAR sites; children are contained in their parent's slot (node addresses are allocation serials). "
          "Not modelled, covered only by the correspondence runs (subprocess exit status, AddressSanitizer build in the thorough tier, csub / cwrap "
          "embeddings): use-after-free of node memory and the tp_alloc/tp_free/GC protocol. size/modification_count are unbounded naturals.")

T = {
 "C12": ("Machine-checked proof that for every capacity and every history of calls (assignment, lookup, deletion, membership, len, keys()/items()/iteration "
         "through iterator handles, and the package wrapper's get/values/pop/popitem/setdefault/update/copy/clear) the array-level model of the C extension "
         "answers exactly what the dict specification answers (KeyError iff absent, ascending iteration, first key object kept, ValueError outside 4..65535), "
         "that an iterator whose stamp differs from the modification count answers RuntimeError without reading any node, that every successful insert or "
         "delete makes older iterators stale, and that on an unmodified tree the n-th next() is the n-th entry (empty leaves skipped) then StopIteration "
         "(Props/C12.v). Tied to the code by building the extension from /repo's sources on every run and comparing outputs, the _verif_dump structure, chain, "
         "size and modification-count relation after every call, for the type driven directly, through a trivial subclass and through the package wrapper, "
         "with int / str / user-class keys; a dict mirror is the oracle.", C_NOTE),
 "C13": ("Proof that for every capacity and history no array access of the model is out of bounds and no NULL / wrongly typed slot is dereferenced, that the "
         "ghost reference count of every object equals the number of slots holding it plus the references handed to the caller after every call, that "
         "deallocation from any reachable state releases everything (all counts 0), and that capacities outside 4..65535 are rejected (Props/C13.v; the "
         "pre-repair truncation and leaks are refuted in C/Legacy.v). Node blocks: node_destroy instrumented with the log of freed addresses frees every "
         "node of the tree exactly once, children before parents, and the node addresses of every reachable state are exactly the blocks handed out "
         "(C/NodeMem.v; tied to the code by allocation counters behind the verification guard, /repo 5ca51f7). PARTIAL, labelled: use-after-free of node memory and the subclass allocation protocol "
         "live in CPython's allocator, which the Gallina model cannot exhibit; they are covered by the correspondence runs only (per-history subprocesses "
         "whose crash is a violation, refcount / weakref audit of every tracked object against the model's counts after every call and after del + gc, ASan "
         "in the thorough tier, subclass and wrapper embeddings).", C_NOTE),
 "C07": ("Machine-checked proof that every finite history of calls on the model of the pure-Python BPlusTreeMap (constructor, assignment, lookup, deletion, "
         "get, membership, len, bool, pop, popitem, setdefault, update, copy over several named maps, clear, bulk load, ranges), at every capacity, produces "
         "call by call the outputs of the dict specification (values, KeyError, TypeError, InvalidCapacityError) and never an internal error "
         "(Props/C07.v: py_history_refines and the property's sentences as corollaries; no bound on sizes, no recursion-limit parameter). Tied to "
         "/repo/python/bplustree/bplus_tree.py by running the extracted model and the real module on the same generated histories (int/str/tuple/float/"
         "user-class keys, None values, thousands of leaves) and comparing outputs, the logical object graph, the leaf chain, head and cache positions "
         "after every call; a dict mirror is the failing-input oracle.", PY_NOTE),
 "C08": ("Proof that on every state reached by any history items/keys/values yield the whole contents in strictly ascending key order and items/keys/"
         "values/range(a, b) equal the filter a <= key < b (None = unbounded) for arbitrary endpoints, incl. empty and inverted intervals (Props/C08.v); "
         "tied to the code on (start, end) grids over keys, gaps, sentinels and None after generated histories.", PY_NOTE),
 "C09": ("Proof that every map of every history satisfies PyInv (order, separator bounds, equal leaf depth, capacity, minimum (capacity-1)//2 written "
         "literally, root arity, chain = in-order leaves, head = first leaf, cache well formed), that the capacity guard of the merges never refuses on "
         "such states, and that from_sorted_items yields the same contents as one-by-one assignment and satisfies PyInv - for every item list, sorted or "
         "not (Props/C09.v). Tied to the code by comparing the object graph after every call; an independent structural walk is the oracle.", PY_NOTE),
 "C01": ("Machine-checked proof that every finite history of insert/remove/get/get_mut/contains_key/get_or_default/len/is_empty/clear (and the other "
         "abstract operations) on the model of BPlusTreeMap, at every capacity >= 4, returns exactly what the sorted-association-list specification "
         "returns, never panics, and keeps the full invariant (Props/C01.v: run-level refinement by induction over the history; per-call corollaries "
         "in the property's words). The specification itself is run against std's BTreeMap by the harness. The model is tied to the crate by comparing "
         "outputs and the logical tree after every call on generated histories; a BTreeMap differential oracle searches for concrete failing inputs.",
         RUST_NOTE),
 "C02": ("Proof that on every reachable state items(), items_fast(), keys(), values(), slice() yield exactly the contents in ascending order, that the "
         "n-th next() of any iterator (any interleaving of several iterators, partial consumption) is the n-th entry and then None forever, and first()/last() "
         "are the extremes (Props/C02.v), for all histories and capacities; tied to the crate by comparing iterator outputs incl. interleaved partial "
         "consumption.", RUST_NOTE),
 "C03": ("Proof that for every reachable state and all nine bound-kind pairs with arbitrary endpoints range() equals the filter of the contents, items_range is "
         "the half-open range, and an iterator started at a position honours its end bound's inclusiveness (Props/C03.v); tied to the crate on endpoint grids.",
         RUST_NOTE),
 "C04": ("Proof that every reachable state satisfies Ord/Shape/Chain (strict order, separator bounds, equal leaf depth, occupancy with cap/2 written "
         "literally, root arity, leaf chain = in-order leaves), that the validators accept it, and that height is logarithmic (Props/C04.v); tied to the "
         "crate by comparing the logical tree and chain after every call; an independent structural checker is the failing-input oracle.", RUST_NOTE),
 "C05": ("Proof that no reader, iterator step or mutator of the model produces the UB outcome on ANY state (stronger than reachable states): every unchecked "
         "access meets its documented precondition (Props/C05.v). Partial in one labelled respect: covers the crate's unchecked accesses; absence of other UB "
         "is Rust's guarantee for safe code. Tied to the crate by assertion hooks inside the unchecked accessors during the correspondence runs and by a census "
         "of unsafe sites checked on every run.", RUST_NOTE),
 "C06": ("Proof that on every reachable state allocated slots = reachable nodes, free lists are exact, introspection agrees, and storage never exceeds the "
         "high-water mark of simultaneously live nodes since new/clear (Props/C06.v); tied to the crate by comparing raw arenas (masks, free-list order, "
         "every slot) after every call.", RUST_NOTE),
 "C10": ("Proof that constructors reject exactly capacities < 4 (all naturals), and that try_get/get_item/get_many/remove_item/try_insert/try_remove/"
         "batch_insert equal the basic operations and never report an integrity error on reachable states (Props/C10.v); tied to the crate incl. capacity "
         "arguments 0..4096.", RUST_NOTE),
 "C11": ("Proof that on every reachable state the values stored in ALL slots of the leaf arena (freed ones included) are a permutation of the values of the "
         "entries, freed slots are empty, key objects are entry keys plus separators, and remove/insert return the stored object (Props/C11.v). Partial, "
         "labelled: 'dropped exactly once' is Rust ownership; the model shows there is exactly one owner slot per object. Tied to the crate by raw arena dumps "
         "and live-instance counters of instrumented key/value types.", RUST_NOTE),
 "C14": ("Proof of validator SOUNDNESS on every value of the raw heap type: if check_invariants answers true then every reachable node satisfies all documented "
         "conditions, so any reachable node with one of the documented kinds of damage is rejected by check_invariants and by the detailed validators; the "
         "detailed check additionally establishes sorted chain keys, count = len, node counts = allocated counts, chain ids = permutation of tree leaf ids; "
         "try_insert/try_remove refuse and return the map unchanged (Props/C14.v). Tied to the crate by injecting damage through hooks and comparing validator "
         "outputs and raw state; an independent analysis is the oracle.", RUST_NOTE),
 "C15": ("Proof that every reader and iterator step is free of the UB outcome on EVERY heap and EVERY iterator state - the safe helpers can reach essentially "
         "any heap - (Props/C15.v). Partial as C05. Tied to the crate by helper-misuse programs run with assertion hooks on, and the unsafe-site census.",
         RUST_NOTE),
 "C16": ("Machine-checked proof (Coq 8.16.1) that every finite history of CompactArena calls (all item types, fewer than 2^32-1 calls) refines the abstract machine "
         "'finite map from handles to items whose allocate may return any non-null handle that is not live' (Props/C16.v), tied to /repo by running the extracted "
         "model and the real CompactArena<i64>/<String> on the same histories and comparing outputs and the complete raw state after every call.",
         COMMON_NOTE + "Not modelled: generation counter, Vec capacity, float statistics; model bound < 2^32-1 slots."),
}


def main():
    claimed = [a for a in sys.argv[1:] if a in T or a.startswith("C")]
    props = [json.loads(l) for l in open(os.path.join(ROOT, "properties.jsonl"))]
    extra = {}
    ep = os.path.join(ROOT, "tools", "manifest_extra.json")
    if os.path.exists(ep):
        extra = json.load(open(ep))
    checks = []
    for p in props:
        i = p["id"]
        if i not in claimed:
            continue
        text, note = extra.get(i, T.get(i, ("", "")))[:2] if i in extra or i in T else ("", "")
        text += (" Further pinned theorems added after an audit of the statements against the property text "
                 "(hypotheses discharged for all reachable states, conclusions strengthened to the property's words, "
                 "histories of any length, damage operators on valid states, strengthened abstract machines) are listed in DESIGN.md section 12.5; "
                 "every obligation named in the OBLIGATIONS line of Props/%s.v is re-checked (make + Print Assumptions) on every run." % i)
        if i in ("C01", "C02", "C03", "C04", "C05", "C06", "C07", "C08", "C09", "C10", "C11", "C16"):
            text += (" The correspondence check additionally runs a small-scope exhaustive exploration (DESIGN.md 12.7): the extracted model "
                     "enumerates every logical state reachable over small key universes (closures) and every short operation sequence around "
                     "three-level start states, and one history per (state, operation) pair is compared between model and implementation; "
                     "the scopes covered by a run are listed in its evidence file (coverage.small_scope_exhaustive).")
        checks.append(dict(
            property_id=i, quick_cmd=f"./vp check {i} --tier quick", thorough_cmd=f"./vp check {i} --tier thorough",
            evidence_file=f"evidence/{i}.json", replay_cmd_template="./vp replay {path}", engine="coq-model+correspondence",
            level_claimed=dict(category="proof", text=text, design_ref="DESIGN.md sections 7, 12.5, 12.7 and 13, " + i),
            level_note=note,
            technique="machine-checked proof in Coq (Rocq 8.16) about an executable model + differential correspondence check of model vs implementation"))
    m = dict(
        version=1, setup_cmd="./vp setup",
        hooks=dict(guard="kentbeck_bplustree3_verif",
                   enable="Rust: RUSTFLAGS=--cfg kentbeck_bplustree3_verif (harness/rust/.cargo/config.toml); C extension: -DKENTBECK_BPLUSTREE3_VERIF",
                   baseline_off_cmd="cd /repo && cargo test --workspace --no-fail-fast --offline",
                   source_commits=["c76c0f7", "5c8db38", "5ca51f7"], add_only=True),
        engines=[dict(name="coq-model+correspondence", path="vp", serves_properties=sorted(claimed),
                      kind_free_text="Coq 8.16 proofs about hand-written executable models; extracted OCaml models run against the real implementation on generated histories (outputs and full state dumps compared); direct oracles search for failing inputs")],
        checks=checks,
        notes="See DESIGN.md. Properties not yet claimed are listed under not_applicable with the reason.",
        not_applicable=[dict(property_id=p["id"],
                             reason="check not yet wired into ./vp in this commit (model/proofs under construction); no claim is made for it yet")
                        for p in props if p["id"] not in claimed])
    json.dump(m, open(os.path.join(ROOT, "MANIFEST.json"), "w"), indent=1)
    print("claimed:", claimed)


if __name__ == "__main__":
    main()
