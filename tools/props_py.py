"""Configuration, runner and generators of the pure-Python properties C07-C09 for ./vp.

PROPS_PY[prop] has the same fields as tools/props.py::PROPS plus impl="py" and
runner=PyRunner.  PyRunner(root, build, tier) offers
   build()                      -> None or an error string (builds the extracted model driver when stale)
   run_shard((tag, ops_text, drv_ignored, runner_ignored, want_model)) -> dict(tag, dir, model_rc, impl_rc, model_err, impl_out)
   harness                      executable taking <ops> <trace> <viol>  (usable by vp.ddmin / vp.harness_viols)
   viols_for(hist_lines, prop, tmpname) -> VIOL lines of one history for prop
   nontrivial_stats(impl_trace) -> number of distinct histories in which the leaf count grew and shrank
Environment:
   PY_MODEL_VARIANT = fixed (default; the model the theorems are about) | legacy (deletion
                      success judged by the popped value, i.e. bplus_tree.py with defect D12)
   BPT_PY_PATH      = directory holding bplustree/bplus_tree.py (default /repo/python)
"""
import os, subprocess, hashlib, shutil, re, sys

sys.path.insert(0, os.path.dirname(os.path.abspath(__file__)))
import gen_py  # noqa: E402

TRUSTED_PY = [
    "Coq 8.16.1 kernel (coqc); no native_compute; vm_compute only in Example/_refuted lemmas",
    "Axioms: none (every pinned theorem prints 'Closed under the global context')",
    "Extraction: Require Extraction + ExtrOcamlBasic only; nat/N/Z/positive stay inductive; OCaml 4.13.1; extract/py_driver.ml (parsing/printing glue)",
    "Hand-written model Py/Tree.v + Py/Run.v tied to /repo/python/bplustree/bplus_tree.py by the correspondence check of this run: harness/py/py_harness.py (walks public attributes only, no hooks), tools/gen_py.py, trace comparison",
    "Modelled, not verified: CPython semantics of lists, bisect on sorted lists, comparison of totally ordered keys (no NaN, no raising __lt__), object identity",
    "The model keeps a child inside its parent and resolves leaf references (leaves head, next, bulk-load cache) by object id; sound when ids are distinct, which is part of the proved invariant, and compared on every run through the chain / head / cache positions of the real object graph",
]

ASSUMPTIONS_PY = [
    "keys are totally ordered and their comparisons do not raise or mutate the map",
    "theorems are stated for the model variant del_by_value = false (deletion success reported by presence)",
]

PROPS_PY = {
    "C07": dict(target="py", impl="py", levels=["O", "S2", "CH"], quick=(16, 36), thorough=(64, 120),
                trusted=TRUSTED_PY, assumptions=ASSUMPTIONS_PY),
    "C08": dict(target="py", impl="py", levels=["O", "S2", "CH"], quick=(16, 24), thorough=(64, 80),
                trusted=TRUSTED_PY, assumptions=ASSUMPTIONS_PY),
    "C09": dict(target="py", impl="py", levels=["O", "S2", "CH"], quick=(16, 36), thorough=(64, 120),
                trusted=TRUSTED_PY, assumptions=ASSUMPTIONS_PY),
}

MODEL_SOURCES = ["Common/Base.v", "Rust/Tree.v", "Py/Tree.v", "Py/Run.v"]


def gen_histories(prop, seed, shard, nhist, tier):
    return gen_py.gen_histories(prop, seed, shard, nhist, tier)


def _sh(cmd, cwd=None, timeout=1800):
    r = subprocess.run(cmd, cwd=cwd, shell=isinstance(cmd, str), stdout=subprocess.PIPE,
                       stderr=subprocess.STDOUT, timeout=timeout)
    return r.returncode, r.stdout.decode("utf-8", "replace")


class PyRunner:
    def __init__(self, root, build, tier="quick"):
        self.root = root
        self.build_dir = build
        self.tier = tier
        self.ex = os.path.join(build, "extract_py")
        self.driver = os.path.join(self.ex, "py_model_driver")
        self.harness = os.path.join(root, "harness", "py", "py_harness.py")
        self.runs = os.path.join(build, "runs")
        self.variant = os.environ.get("PY_MODEL_VARIANT", "fixed") or "fixed"
        # compiled model for extraction_crosscheck: the private copy the driver was extracted from
        self.coq_dir = os.environ.get("C_MODEL_COQ_DIR") or os.path.join(self.ex, "coq")

    # -- build the extracted model driver (private copy of the four model files, so that the
    #    build does not depend on the state of the shared Coq build directory)
    def build(self):
        coq = os.path.join(self.root, "coq")
        srcs = [os.path.join(coq, f) for f in MODEL_SOURCES]
        srcs += [os.path.join(coq, "Extract", "ExtractPy.v"), os.path.join(self.root, "extract", "py_driver.ml")]
        for s in srcs:
            if not os.path.exists(s):
                return "missing source " + s
        h = hashlib.sha256()
        for s in srcs:
            h.update(s.encode())
            h.update(open(s, "rb").read())
        hsh = h.hexdigest()
        stamp = os.path.join(self.ex, "stamp")
        if os.path.exists(stamp) and os.path.exists(self.driver) and open(stamp).read() == hsh:
            return None
        priv = os.path.join(self.ex, "coq")
        shutil.rmtree(priv, ignore_errors=True)
        for f in MODEL_SOURCES:
            os.makedirs(os.path.dirname(os.path.join(priv, f)), exist_ok=True)
            shutil.copy(os.path.join(coq, f), os.path.join(priv, f))
        for f in MODEL_SOURCES:
            rc, out = _sh(["timeout", "900", "coqc", "-Q", ".", "BPT", f], cwd=priv)
            if rc != 0:
                return "coqc %s failed:\n%s" % (f, out[-3000:])
        rc, out = _sh(["timeout", "900", "coqc", "-Q", priv, "BPT", "-o", os.path.join(self.ex, "ExtractPy.vo"),
                       os.path.join(coq, "Extract", "ExtractPy.v")], cwd=self.ex)
        if rc != 0:
            return "extraction failed:\n" + out[-3000:]
        shutil.copy(os.path.join(self.root, "extract", "py_driver.ml"), os.path.join(self.ex, "py_driver.ml"))
        rc, out = _sh("timeout 900 ocamlfind ocamlopt -O3 -w -a py_model.mli py_model.ml py_driver.ml -o py_model_driver",
                      cwd=self.ex)
        if rc != 0:
            return "compiling the model driver failed:\n" + out[-3000:]
        if not os.access(self.harness, os.X_OK):
            return "harness %s is not executable" % self.harness
        open(stamp, "w").write(hsh)
        return None

    def run_shard(self, args):
        tag, text, _drv, _runner, want_model = args
        d = os.path.join(self.runs, tag)
        os.makedirs(d, exist_ok=True)
        ops = os.path.join(d, "ops")
        open(ops, "w").write(text)
        res = {"tag": tag, "dir": d, "model_rc": 0, "model_err": ""}
        if want_model:
            with open(os.path.join(d, "model"), "w") as fh:
                r = subprocess.run([self.driver, ops, self.variant], stdout=fh, stderr=subprocess.PIPE, timeout=3000)
            res["model_rc"] = r.returncode
            res["model_err"] = r.stderr.decode("utf-8", "replace")[-500:]
        r = subprocess.run([sys.executable, self.harness, ops, os.path.join(d, "impl"), os.path.join(d, "viol")],
                           stdout=subprocess.PIPE, stderr=subprocess.STDOUT, timeout=3000)
        res["impl_rc"] = r.returncode
        res["impl_out"] = r.stdout.decode("utf-8", "replace")[-2000:]
        return res

    def viols_for(self, hist_lines, prop, tmpname):
        d = os.path.join(self.runs, tmpname)
        os.makedirs(d, exist_ok=True)
        open(os.path.join(d, "ops"), "w").write("\n".join(hist_lines) + "\n")
        try:
            subprocess.run([sys.executable, self.harness, os.path.join(d, "ops"), os.path.join(d, "impl"),
                            os.path.join(d, "viol")], stdout=subprocess.PIPE, stderr=subprocess.STDOUT, timeout=600)
        except subprocess.TimeoutExpired:
            return ["VIOL %s ? ? timeout (non-termination)" % prop]
        try:
            return [l.strip().replace("VIOL * ", "VIOL " + prop + " ", 1) for l in open(os.path.join(d, "viol"))
                    if l.startswith("VIOL " + prop + " ") or l.startswith("VIOL * ")]
        except OSError:
            return []

    @staticmethod
    def nontrivial_stats(impl_path):
        """distinct histories in which the number of leaves both grew and shrank"""
        n, seen = 0, set()
        cur, outs, prev, up, down = None, [], None, False, False

        def close():
            nonlocal n
            if cur is not None and up and down:
                key = hashlib.md5("\n".join(outs).encode()).hexdigest()
                if key not in seen:
                    seen.add(key)
                    n += 1
        with open(impl_path, errors="replace") as fh:
            for l in fh:
                if l.startswith("H "):
                    close()
                    cur, outs, prev, up, down = l, [], None, False, False
                elif l.startswith("O "):
                    outs.append(l)
                elif l.startswith("CH"):
                    m = re.search(r" n=(\d+)", l)
                    if m:
                        c = int(m.group(1))
                        if prev is not None:
                            up |= c > prev
                            down |= c < prev
                        prev = c
        close()
        return n


# ---------------------------------------------------------------------------------------------
# Extraction cross-check: extraction (and extract/py_driver.ml) is in the trusted base, so a
# sample of each run's histories is evaluated a second time INSIDE Coq (vm_compute on the very
# model the driver was extracted from) and compared with what the extracted driver printed.
#
# Both sides are reduced to lists of integers.  The driver's text is lossy in two places
# (UNone and UVal PNone both print "None"; UNat n and UVal (PVal n) both print the integer; an
# empty UItems / UKeys / UVals prints "[]"), so the Coq digest identifies exactly those cases
# and nothing else: list elements carry their own tag (7 item, 8 key, 9 value).
#
# xc_go mirrors the main loop of extract/py_driver.ml: the H line performs ONew 0 cap on w0,
# the history is dead when that leaves no current map, and it dies after a fatal outcome
# (exception other than KeyError / TypeError / InvalidCapacityError, fuel, out of model).
COQ_DIGEST_PY = r"""From Coq Require Import ZArith NArith List Bool.
Import ListNotations.
From BPT Require Import Common.Base Rust.Tree Py.Tree Py.Run.
Open Scope Z_scope.
Definition xc_dv (v : pyval) : list Z := match v with PNone => [0] | PVal z => [1; z] end.
Definition xc_dk (k : key) : list Z := [kz k; Z.of_N (kid k)].
Definition xc_digest (o : out) : list Z :=
  match o with
  | UNone => [0]
  | UVal v => xc_dv v
  | UBool b => [2; if b then 1 else 0]
  | UNat n => [1; Z.of_nat n]
  | UPair k v => 3 :: xc_dk k ++ xc_dv v
  | UItems l => 4 :: flat_map (fun kv : key * pyval => 7 :: xc_dk (fst kv) ++ xc_dv (snd kv)) l
  | UKeys l => 4 :: flat_map (fun k : key => 8 :: xc_dk k) l
  | UVals l => 4 :: flat_map (fun v : pyval => 9 :: xc_dv v) l
  | UExc e => [10; Z.of_nat e]
  | UNoMap => [11]
  | UFuel => [12]
  | UOutOfModel => [13]
  end.
Definition xc_fatal (o : out) : bool :=
  match o with
  | UExc e => negb (Nat.eqb e 1 || Nat.eqb e 3 || Nat.eqb e 5)
  | UFuel | UOutOfModel => true
  | _ => false
  end.
Fixpoint xc_drive (legacy : bool) (w : world) (ops : list op) : list (list Z) :=
  match ops with
  | [] => []
  | o :: ops' =>
      let wx := step legacy w o in
      xc_digest (snd wx) :: (if xc_fatal (snd wx) then [] else xc_drive legacy (fst wx) ops')
  end.
Definition xc_go (legacy : bool) (cap : Z) (ops : list op) : list (list Z) :=
  let wx := step legacy w0 (ONew 0%N (Z.to_nat cap)) in
  xc_digest (snd wx) ::
  (if xc_fatal (snd wx) then []
   else match current (fst wx) with None => [] | Some _ => xc_drive legacy (fst wx) ops end).
Definition K (z i : Z) : key := mkKey z (Z.to_N i).
Definition V (z : Z) : pyval := PVal z.
Definition Nm (n : Z) : N := Z.to_N n.
Definition Cp (c : Z) : nat := Z.to_nat c.
"""

_XC_MAX_LINES = 60        # history length (op lines, directives included)
_XC_MAX_CAP = 200         # capacities are unary numbers inside Coq
_XC_MAX_ITEMS = 40        # items of one bulk / update line
_EXC_CODES = {"KeyError": 1, "ValueError": 2, "TypeError": 3, "IndexError": 4,
              "InvalidCapacityError": 5, "AttributeError": 6}


def _xc_int(tok, lo=None, hi=None):
    """the integer int_of_string of py_driver.ml reads from tok (plain decimal only; anything
       else makes the history untranslatable)"""
    if not re.fullmatch(r"-?[0-9]+", tok):
        raise ValueError(tok)
    n = int(tok)
    if abs(n) >= 1 << 62 or (lo is not None and n < lo) or (hi is not None and n > hi):
        raise ValueError(tok)
    return n


def _coq_z(tok):
    return "(%d)" % _xc_int(tok)


def _coq_key(z, kid):
    return "(K (%d) %d)" % (_xc_int(z), _xc_int(kid, lo=0))      # n_of_int is not Z.to_N below 0


def _coq_val(tok):
    return "PNone" if tok == "N" else "(V (%d))" % _xc_int(tok)


def _coq_zopt(tok):
    return "None" if tok == "-" else "(Some (%d))" % _xc_int(tok)


def _coq_name(tok):
    return "(Nm %d)" % _xc_int(tok, lo=0)


def _coq_cap(tok):
    return "(Cp (%d))" % _xc_int(tok, hi=_XC_MAX_CAP)            # nat_of_int n = O for n <= 0 = Z.to_nat


def _coq_kv(tok):
    p = tok.split(":")
    if len(p) != 3:
        raise ValueError(tok)
    return "(%s, %s)" % (_coq_key(p[0], p[1]), _coq_val(p[2]))


def _coq_kvs(toks):
    if len(toks) > _XC_MAX_ITEMS:
        raise ValueError("too many items")
    return "[%s]" % "; ".join(_coq_kv(x) for x in toks)


def _coq_op(line):
    """Coq source of the op that parse_op of extract/py_driver.ml builds from this line;
       ValueError when the driver would not parse it (or it is outside the small fragment)"""
    t = [x for x in line.split(" ") if x]
    o, n = (t[0] if t else ""), len(t)
    if o == "set" and n == 4: return "OSet %s %s" % (_coq_key(t[1], t[2]), _coq_val(t[3]))
    if o == "getitem" and n == 2: return "OGetItem %s" % _coq_z(t[1])
    if o == "del" and n == 2: return "ODel %s" % _coq_z(t[1])
    if o == "get" and n == 2: return "OGet %s None" % _coq_z(t[1])
    if o == "get" and n == 3: return "OGet %s (Some %s)" % (_coq_z(t[1]), _coq_val(t[2]))
    if o == "in" and n == 2: return "OContains %s" % _coq_z(t[1])
    if o == "len" and n == 1: return "OLen"
    if o == "bool" and n == 1: return "OBool"
    if o == "pop" and n >= 2: return "OPop %s [%s]" % (_coq_z(t[1]), "; ".join(_coq_val(x) for x in t[2:]))
    if o == "popitem" and n == 1: return "OPopItem"
    if o == "setdefault" and n == 3: return "OSetDefault %s None" % _coq_key(t[1], t[2])
    if o == "setdefault" and n == 4: return "OSetDefault %s (Some %s)" % (_coq_key(t[1], t[2]), _coq_val(t[3]))
    if o == "update": return "OUpdate %s" % _coq_kvs(t[1:])
    if o == "copy" and n == 2: return "OCopy %s" % _coq_name(t[1])
    if o == "use" and n == 2: return "OUse %s" % _coq_name(t[1])
    if o == "clear" and n == 1: return "OClear"
    if o in ("items", "keys", "values", "range") and n == 3:
        return "%s %s %s" % ({"items": "OItems", "keys": "OKeys", "values": "OValues", "range": "ORange"}[o],
                             _coq_zopt(t[1]), _coq_zopt(t[2]))
    if o == "new" and n == 3: return "ONew %s %s" % (_coq_name(t[1]), _coq_cap(t[2]))
    if o == "bulk" and n >= 3: return "OBulk %s %s %s" % (_coq_name(t[1]), _coq_cap(t[2]), _coq_kvs(t[3:]))
    raise ValueError(line)


def _coq_history(h):
    """(cap, [Coq ops]) of the history h = [H line, line, ...] as the main loop of py_driver.ml
       reads it; ValueError when it cannot be translated"""
    t = [x for x in h[0].split(" ") if x]
    if len(t) < 3 or t[0] != "H" or len(h) - 1 > _XC_MAX_LINES:
        raise ValueError(h[0])
    cap = 0
    for x in t[3:]:
        if len(x) > 4 and x.startswith("cap="):
            cap = _xc_int(x[4:])
    if not 0 <= cap <= _XC_MAX_CAP:
        raise ValueError(h[0])
    ops = []
    for line in h[1:]:
        t = [x for x in line.split(" ") if x]
        if not t or (len(t) == 2 and t[0] == "DUMP") or t[0] == "ORACLE":
            continue                                   # not calls: the driver skips them as well
        ops.append(_coq_op(line))
    return cap, ops


def _digest_of_trace_text(s):
    """digest of the text after 'O ' (s_out of py_driver.ml), the counterpart of xc_digest"""
    dv = lambda x: [0] if x == "None" else [1, int(x)]
    dk = lambda x: [int(y) for y in x.split("#")]
    try:
        if s == "None": return [0]
        if re.fullmatch(r"-?[0-9]+", s): return [1, int(s)]
        if s in ("True", "False"): return [2, 1 if s == "True" else 0]
        m = re.fullmatch(r"\((\S+), (\S+)\)", s)
        if m: return [3] + dk(m.group(1)) + dv(m.group(2))
        if s.startswith("[") and s.endswith("]"):
            out = [4]
            for x in s[1:-1].split():
                if "=" in x:
                    k, v = x.split("=")
                    out += [7] + dk(k) + dv(v)
                elif "#" in x:
                    out += [8] + dk(x)
                else:
                    out += [9] + dv(x)
            return out
        if s.startswith("EXC "):
            name = s[4:]
            return [10, _EXC_CODES[name] if name in _EXC_CODES else int(name[len("Exception"):])]
        if s == "NOMAP": return [11]
        if s == "NONTERMINATION": return [12]
        if s == "OUTOFMODEL": return [13]
    except ValueError:
        pass
    return [-1]


def _driver_digests(trace_text):
    """[[digest of every O line] per history], in the order of the H lines of the driver's output"""
    want = []
    for line in trace_text.splitlines():
        if line.startswith("H "):
            want.append([])
        elif line.startswith("O ") and want:
            want[-1].append(_digest_of_trace_text(line[2:]))
    return want


def _xc_compare(cases, want, coq_out):
    """cases = [hid]; want = _driver_digests(...); coq_out = what coqc printed for cases.v"""
    bad, n = [], 0
    for m in re.finditer(r"CASE (\d+)\n\s*= (.*?)\n\s*: list \(list Z\)", coq_out, re.S):
        i, term = int(m.group(1)), m.group(2)
        got = [[int(x) for x in re.findall(r"-?\d+", grp)] for grp in re.findall(r"\[([^\[\]]*)\]", term)]
        n += 1
        exp = want[i] if i < len(want) else None
        if got != exp:
            e = exp or []
            j = next((x for x in range(min(len(got), len(e))) if got[x] != e[x]), min(len(got), len(e)))
            bad.append("history %s, observation %d (of %d / %d): vm_compute %s  vs  extracted driver %s"
                       % (cases[i], j, len(got), len(e), str(got[j:j + 1])[:300], str(e[j:j + 1])[:300]))
    if n != len(cases) or len(want) != len(cases):
        bad.append("%d histories submitted, %d evaluated by coqc, %d in the driver's trace" % (len(cases), n, len(want)))
    return n, bad


def extraction_crosscheck(runner, shard_text, root, max_cases=30):
    """evaluate small histories with vm_compute inside coqc and compare with what the
       extracted OCaml driver printed for the same histories; returns (n_checked, [mismatch])"""
    coq_dir = getattr(runner, "coq_dir", None)
    if not coq_dir or not os.path.exists(os.path.join(coq_dir, "Py", "Run.vo")):
        coq_dir = os.environ.get("C_MODEL_COQ_DIR", os.path.join(root, "build", "coq"))
    hs, cur = [], None
    for line in shard_text.splitlines():
        if line.startswith("H "):
            cur = [line]
            hs.append(cur)
        elif cur is not None:
            cur.append(line)
    small = []
    for h in hs:
        try:
            cap, ops = _coq_history(h)
        except ValueError:
            continue                                   # not in the small fragment: not re-evaluated
        small.append((h, cap, ops))
        if len(small) >= max_cases:
            break
    if not small:
        return 0, []
    d = os.path.join(runner.runs, "xcheck_py_p%d" % os.getpid())
    shutil.rmtree(d, ignore_errors=True)
    os.makedirs(d)
    try:
        ops_path = os.path.join(d, "ops")
        open(ops_path, "w").write("".join("\n".join(h) + "\n" for h, _, _ in small))
        r = subprocess.run([runner.driver, ops_path, runner.variant], stdout=subprocess.PIPE, stderr=subprocess.PIPE,
                           timeout=600)
        if r.returncode != 0:
            return 0, ["the extracted driver failed (rc=%d): %s" % (r.returncode, r.stderr.decode("utf-8", "replace")[-500:])]
        want = _driver_digests(r.stdout.decode("utf-8", "replace"))
        legacy = "true" if runner.variant == "legacy" else "false"
        v = [COQ_DIGEST_PY]
        for i, (h, cap, ops) in enumerate(small):
            v.append("Definition c%d := xc_go %s (%d) [%s]." % (i, legacy, cap, ";\n  ".join(ops)))
            v.append('Goal True. idtac "CASE %d". Abort.\nEval vm_compute in c%d.' % (i, i))
        open(os.path.join(d, "cases.v"), "w").write("\n".join(v) + "\n")
        r = subprocess.run(["timeout", "900", "coqc", "-Q", coq_dir, "BPT", "cases.v"], cwd=d,
                           stdout=subprocess.PIPE, stderr=subprocess.STDOUT)
        out = r.stdout.decode("utf-8", "replace")
        if r.returncode != 0:
            return 0, ["coqc failed on cases.v: " + out[-800:]]
        return _xc_compare([h[0].split()[1] for h, _, _ in small], want, out)
    finally:
        shutil.rmtree(d, ignore_errors=True)


for _cfg in PROPS_PY.values():
    _cfg["runner"] = PyRunner
