"""Configuration, runner and generators of the pure-Python properties C07-C09 for ./vp.

PROPS_PY[prop] has the same fields as tools/props.py::PROPS plus impl="py" and
runner=PyRunner.  PyRunner(root, build, tier) offers
   build()                      -> None or an error string (builds the extracted model driver when stale)
   run_shard((tag, ops_text, drv_ignored, runner_ignored, want_model)) -> dict(tag, dir, model_rc, impl_rc, model_err, impl_out)
   harness                      executable taking <ops> <trace> <viol>  (usable by vp.ddmin / vp.harness_viols)
   viols_for(hist_lines, prop, tmpname) -> VIOL lines of one history for prop
   nontrivial_stats(impl_trace) -> number of distinct histories in which the leaf count grew and shrank
Environment:
   PY_MODEL_VARIANT = fixed (default; the model the theorems are about) | legacy (deletion
                      success judged by the popped value, i.e. bplus_tree.py with defect D12)
   BPT_PY_PATH      = directory holding bplustree/bplus_tree.py (default /repo/python)
"""
import os, subprocess, hashlib, shutil, re, sys

sys.path.insert(0, os.path.dirname(os.path.abspath(__file__)))
import gen_py  # noqa: E402

TRUSTED_PY = [
    "Coq 8.16.1 kernel (coqc); no native_compute; vm_compute only in Example/_refuted lemmas",
    "Axioms: none (every pinned theorem prints 'Closed under the global context')",
    "Extraction: Require Extraction + ExtrOcamlBasic only; nat/N/Z/positive stay inductive; OCaml 4.13.1; extract/py_driver.ml (parsing/printing glue)",
    "Hand-written model Py/Tree.v + Py/Run.v tied to /repo/python/bplustree/bplus_tree.py by the correspondence check of this run: harness/py/py_harness.py (walks public attributes only, no hooks), tools/gen_py.py, trace comparison",
    "Modelled, not verified: CPython semantics of lists, bisect on sorted lists, comparison of totally ordered keys (no NaN, no raising __lt__), object identity",
    "The model keeps a child inside its parent and resolves leaf references (leaves head, next, bulk-load cache) by object id; sound when ids are distinct, which is part of the proved invariant, and compared on every run through the chain / head / cache positions of the real object graph",
]

ASSUMPTIONS_PY = [
    "keys are totally ordered and their comparisons do not raise or mutate the map",
    "theorems are stated for the model variant del_by_value = false (deletion success reported by presence)",
]

PROPS_PY = {
    "C07": dict(target="py", impl="py", levels=["O", "S2", "CH"], quick=(16, 36), thorough=(64, 120),
                trusted=TRUSTED_PY, assumptions=ASSUMPTIONS_PY),
    "C08": dict(target="py", impl="py", levels=["O", "S2", "CH"], quick=(16, 24), thorough=(64, 80),
                trusted=TRUSTED_PY, assumptions=ASSUMPTIONS_PY),
    "C09": dict(target="py", impl="py", levels=["O", "S2", "CH"], quick=(16, 36), thorough=(64, 120),
                trusted=TRUSTED_PY, assumptions=ASSUMPTIONS_PY),
}

MODEL_SOURCES = ["Common/Base.v", "Rust/Tree.v", "Py/Tree.v", "Py/Run.v"]


def gen_histories(prop, seed, shard, nhist, tier):
    return gen_py.gen_histories(prop, seed, shard, nhist, tier)


def _sh(cmd, cwd=None, timeout=1800):
    r = subprocess.run(cmd, cwd=cwd, shell=isinstance(cmd, str), stdout=subprocess.PIPE,
                       stderr=subprocess.STDOUT, timeout=timeout)
    return r.returncode, r.stdout.decode("utf-8", "replace")


class PyRunner:
    def __init__(self, root, build, tier="quick"):
        self.root = root
        self.build_dir = build
        self.tier = tier
        self.ex = os.path.join(build, "extract_py")
        self.driver = os.path.join(self.ex, "py_model_driver")
        self.harness = os.path.join(root, "harness", "py", "py_harness.py")
        self.runs = os.path.join(build, "runs")
        self.variant = os.environ.get("PY_MODEL_VARIANT", "fixed") or "fixed"

    # -- build the extracted model driver (private copy of the four model files, so that the
    #    build does not depend on the state of the shared Coq build directory)
    def build(self):
        coq = os.path.join(self.root, "coq")
        srcs = [os.path.join(coq, f) for f in MODEL_SOURCES]
        srcs += [os.path.join(coq, "Extract", "ExtractPy.v"), os.path.join(self.root, "extract", "py_driver.ml")]
        for s in srcs:
            if not os.path.exists(s):
                return "missing source " + s
        h = hashlib.sha256()
        for s in srcs:
            h.update(s.encode())
            h.update(open(s, "rb").read())
        hsh = h.hexdigest()
        stamp = os.path.join(self.ex, "stamp")
        if os.path.exists(stamp) and os.path.exists(self.driver) and open(stamp).read() == hsh:
            return None
        priv = os.path.join(self.ex, "coq")
        shutil.rmtree(priv, ignore_errors=True)
        for f in MODEL_SOURCES:
            os.makedirs(os.path.dirname(os.path.join(priv, f)), exist_ok=True)
            shutil.copy(os.path.join(coq, f), os.path.join(priv, f))
        for f in MODEL_SOURCES:
            rc, out = _sh(["timeout", "900", "coqc", "-Q", ".", "BPT", f], cwd=priv)
            if rc != 0:
                return "coqc %s failed:\n%s" % (f, out[-3000:])
        rc, out = _sh(["timeout", "900", "coqc", "-Q", priv, "BPT", "-o", os.path.join(self.ex, "ExtractPy.vo"),
                       os.path.join(coq, "Extract", "ExtractPy.v")], cwd=self.ex)
        if rc != 0:
            return "extraction failed:\n" + out[-3000:]
        shutil.copy(os.path.join(self.root, "extract", "py_driver.ml"), os.path.join(self.ex, "py_driver.ml"))
        rc, out = _sh("timeout 900 ocamlfind ocamlopt -O3 -w -a py_model.mli py_model.ml py_driver.ml -o py_model_driver",
                      cwd=self.ex)
        if rc != 0:
            return "compiling the model driver failed:\n" + out[-3000:]
        if not os.access(self.harness, os.X_OK):
            return "harness %s is not executable" % self.harness
        open(stamp, "w").write(hsh)
        return None

    def run_shard(self, args):
        tag, text, _drv, _runner, want_model = args
        d = os.path.join(self.runs, tag)
        os.makedirs(d, exist_ok=True)
        ops = os.path.join(d, "ops")
        open(ops, "w").write(text)
        res = {"tag": tag, "dir": d, "model_rc": 0, "model_err": ""}
        if want_model:
            with open(os.path.join(d, "model"), "w") as fh:
                r = subprocess.run([self.driver, ops, self.variant], stdout=fh, stderr=subprocess.PIPE, timeout=3000)
            res["model_rc"] = r.returncode
            res["model_err"] = r.stderr.decode("utf-8", "replace")[-500:]
        r = subprocess.run([sys.executable, self.harness, ops, os.path.join(d, "impl"), os.path.join(d, "viol")],
                           stdout=subprocess.PIPE, stderr=subprocess.STDOUT, timeout=3000)
        res["impl_rc"] = r.returncode
        res["impl_out"] = r.stdout.decode("utf-8", "replace")[-2000:]
        return res

    def viols_for(self, hist_lines, prop, tmpname):
        d = os.path.join(self.runs, tmpname)
        os.makedirs(d, exist_ok=True)
        open(os.path.join(d, "ops"), "w").write("\n".join(hist_lines) + "\n")
        try:
            subprocess.run([sys.executable, self.harness, os.path.join(d, "ops"), os.path.join(d, "impl"),
                            os.path.join(d, "viol")], stdout=subprocess.PIPE, stderr=subprocess.STDOUT, timeout=600)
        except subprocess.TimeoutExpired:
            return ["VIOL %s ? ? timeout (non-termination)" % prop]
        try:
            return [l.strip() for l in open(os.path.join(d, "viol")) if l.startswith("VIOL " + prop + " ")]
        except OSError:
            return []

    @staticmethod
    def nontrivial_stats(impl_path):
        """distinct histories in which the number of leaves both grew and shrank"""
        n, seen = 0, set()
        cur, outs, prev, up, down = None, [], None, False, False

        def close():
            nonlocal n
            if cur is not None and up and down:
                key = hashlib.md5("\n".join(outs).encode()).hexdigest()
                if key not in seen:
                    seen.add(key)
                    n += 1
        with open(impl_path, errors="replace") as fh:
            for l in fh:
                if l.startswith("H "):
                    close()
                    cur, outs, prev, up, down = l, [], None, False, False
                elif l.startswith("O "):
                    outs.append(l)
                elif l.startswith("CH"):
                    m = re.search(r" n=(\d+)", l)
                    if m:
                        c = int(m.group(1))
                        if prev is not None:
                            up |= c > prev
                            down |= c < prev
                        prev = c
        close()
        return n


for _cfg in PROPS_PY.values():
    _cfg["runner"] = PyRunner
