"""Case generator for the C-extension properties C12 / C13 (op language of
extract/c_driver.ml and harness/c/c_harness.py).  All randomness comes from
random.Random(f"{prop}-{seed}-{shard}")."""
import random

TARGETS = ["c", "csub", "cwrap"]
KINDS = ["int", "str", "obj", "int", "str", "obj", "isub", "ssub", "ustr", "wstr", "mstr"]


class HistC:
    def __init__(self, hid, target, cap, kind, dump=1):
        self.hid = hid
        self.target = target
        self.cap = cap
        self.kind = kind
        self.dump = dump
        self.ops = []
        self.vid = 0
        self.live = set()         # ordinals believed present (generator-side guess only)
        self.vals = []            # value ids used so far

    def header(self):
        h = f"H {self.hid} {self.target} cap={self.cap} keys={self.kind}"
        if self.dump != 1:
            h += f" dump={self.dump}"
        return h

    def add(self, s):
        self.ops.append(s)

    def text(self):
        return "\n".join([self.header()] + self.ops) + "\n"

    def newval(self, rng):
        # v0 is None: a stored None is a value like any other (wrapper get / setdefault / pop / values)
        if rng.random() < 0.07:
            return 0
        # mostly fresh value objects; sometimes one that is already stored elsewhere
        if self.vals and rng.random() < 0.12:
            return rng.choice(self.vals)
        self.vid += 1
        self.vals.append(self.vid)
        return self.vid


def ktok(rng, k, pvar=0.15):
    """key object token: ordinal.variant; variants are distinct objects that compare equal"""
    var = 0 if rng.random() > pvar else rng.choice([1, 2])
    return f"{k}.{var}"


def op_set(h, rng, k):
    h.add(f"set {ktok(rng, k)} v{h.newval(rng)}")
    h.live.add(k)


def op_del(h, rng, k):
    h.add(f"del {ktok(rng, k, 0.3)}")
    h.live.discard(k)


def reader(h, rng, U, base):
    r = rng.random()
    k = base + rng.randrange(U)
    if r < 0.35:
        h.add(f"get {ktok(rng, k, 0.3)}")
    elif r < 0.6:
        h.add(f"in {ktok(rng, k, 0.3)}")
    elif r < 0.7:
        h.add("len")
    elif r < 0.8:
        h.add("keys")
    elif r < 0.9:
        h.add("items")
    else:
        h.add("iter")


def wrapper_op(h, rng, U, base):
    r = rng.random()
    k = base + rng.randrange(U)
    if r < 0.14:
        h.add(f"wget {ktok(rng, k, 0.3)} v{h.newval(rng)}")
    elif r < 0.22:
        h.add("wvalues")
    elif r < 0.25:
        h.add("wclear")
        h.live.clear()
    elif r < 0.40:
        if rng.random() < 0.5:
            h.add(f"wpop {ktok(rng, k, 0.3)}")
        else:
            h.add(f"wpop {ktok(rng, k, 0.3)} v{h.newval(rng)}")
        h.live.discard(k)
    elif r < 0.52:
        h.add("wpopitem")
    elif r < 0.67:
        h.add(f"wsetdefault {ktok(rng, k)} v{h.newval(rng)}")
        h.live.add(k)
    elif r < 0.82:
        n = rng.choice([0, 1, 2, 3, 5, 9])
        args = []
        for _ in range(n):
            kk = base + rng.randrange(U)
            args += [ktok(rng, kk), f"v{h.newval(rng)}"]
            h.live.add(kk)
        h.add("wupdate " + " ".join(args) if args else "wupdate")
    elif r < 0.90:
        h.add("wcopy")
    elif r < 0.94:
        h.add("wswap")
        h.live = set()
    else:
        h.add("wcap")


def iter_scenario(h, rng, U, base):
    """create an iterator, advance, (maybe) mutate, advance again, (maybe) exhaust"""
    hnd = rng.choice([1, 2, 3])
    kind = rng.choice(["k", "i", "t"])
    h.add(f"it_new {kind} {hnd}")
    for _ in range(rng.choice([0, 1, 2, 3, 7])):
        h.add(f"it_next {hnd}")
    r = rng.random()
    if r < 0.25:
        pass                                                   # no mutation: plain iteration
    elif r < 0.45:
        op_set(h, rng, base + rng.randrange(U))                # insert or overwrite
    elif r < 0.60 and h.live:
        k = rng.choice(sorted(h.live))
        h.add(f"set {k}.0 v{h.newval(rng)}")                   # pure overwrite
    elif r < 0.80 and h.live:
        op_del(h, rng, rng.choice(sorted(h.live)))             # successful delete (probably)
    elif r < 0.90:
        h.add(f"del {base + U + 5}.0")                         # failing delete: not a modification
    else:
        h.add(f"get {ktok(rng, base + rng.randrange(U))}")     # reader: not a modification
    for _ in range(rng.choice([1, 2, 4])):
        h.add(f"it_next {hnd}")
    if rng.random() < 0.3:
        # run a fresh iterator to exhaustion and beyond
        h2 = rng.choice([1, 2, 3])
        h.add(f"it_new {rng.choice(['k', 'i'])} {h2}")
        for _ in range(min(len(h.live) + 3, 40)):
            h.add(f"it_next {h2}")
        if rng.random() < 0.5:
            op_set(h, rng, base + rng.randrange(U))
            h.add(f"it_next {h2}")
    if rng.random() < 0.3:
        h.add(f"it_drop {hnd}")


def gen_history(hid, rng, prop, tier):
    style = rng.choice(["mix", "mix", "mix", "asc", "desc", "empty", "iter", "iter", "big", "wrap", "wrap"])
    target = rng.choice(TARGETS + ["cwrap"]) if style != "wrap" else "cwrap"
    kind = rng.choice(KINDS)
    if style == "big":
        cap = rng.choice([16, 32, 64, 128] if tier == "quick" else [16, 31, 32, 64, 100, 127, 128])
        U = rng.choice([300, 900] if tier == "quick" else [600, 4000])
        n = rng.choice([300, 700] if tier == "quick" else [1500, 5000])
        dump = rng.choice([10, 25])
    else:
        cap = rng.choice([4, 4, 4, 5, 5, 6, 7, 8, 9])
        U = rng.choice([6, 8, 12, 16, 17, 24, 40, 80])
        n = rng.choice([30, 80, 160] if tier == "quick" else [100, 300, 700])
        dump = 1 if n <= 160 else rng.choice([3, 7])     # keeps the trace files small
    # integer keys: sometimes straddle the end of the C `long` range (ordinals >= 5000)
    base = 0
    if kind == "int" and rng.random() < 0.15:
        base = 5000 - U // 2
    h = HistC(hid, target, cap, kind, dump)
    p_iter = {"iter": 0.25}.get(style, 0.04 if prop == "C12" else 0.02)
    p_wrap = 0.0 if target != "cwrap" else {"wrap": 0.45}.get(style, 0.12)
    p_read = 0.18 if prop == "C12" else 0.08
    p_ins = 0.7
    serial = 0
    i = 0
    while i < n:
        i += 1
        r = rng.random()
        if r < p_iter:
            iter_scenario(h, rng, U, base)
            continue
        if r < p_iter + p_wrap:
            wrapper_op(h, rng, U, base)
            continue
        if r < p_iter + p_wrap + p_read:
            reader(h, rng, U, base)
            continue
        if style == "asc":
            if rng.random() < 0.8:
                serial += 1
                op_set(h, rng, base + serial)
            else:
                op_del(h, rng, base + rng.randrange(serial + 1))
        elif style == "desc":
            if rng.random() < 0.8:
                serial += 1
                op_set(h, rng, base + 4000 - serial)
            else:
                op_del(h, rng, base + 4000 - rng.randrange(serial + 1))
        elif style == "empty":
            # grow, then delete runs of neighbouring keys so that whole leaves become empty,
            # then grow again into the emptied leaves
            phase = (i * 3 // max(n, 1)) % 3
            if phase != 1:
                op_set(h, rng, base + rng.randrange(U))
            else:
                if h.live and rng.random() < 0.85:
                    s = sorted(h.live)
                    j = rng.randrange(len(s))
                    for k in s[j:j + rng.choice([1, 3, cap, cap + 2])]:
                        op_del(h, rng, k)
                        i += 1
                else:
                    op_del(h, rng, base + rng.randrange(U))
        else:
            if i % 50 == 0:
                p_ins = rng.choice([0.85, 0.7, 0.5, 0.3])
            k = base + rng.randrange(U)
            if rng.random() < p_ins:
                op_set(h, rng, k)
            else:
                op_del(h, rng, k)
    if prop == "C13" and h.vals and rng.random() < 0.25:
        # a stored value refers to an iterator over its own tree: only the cyclic garbage
        # collector can release the tree once the caller has dropped it
        v = h.newval(rng) or h.newval(rng) or 1      # never v0 (None cannot refer to anything)
        k = base + rng.randrange(U)
        h.add(f"set {k}.0 v{v}")
        h.live.add(k)
        h.add(f"cyc v{v}")
        if rng.random() < 0.5:
            op_set(h, rng, base + rng.randrange(U))
    # final reads so that every history checks the contents at least once
    h.add("len")
    h.add("items")
    if target == "cwrap" and rng.random() < 0.5:
        h.add("wvalues")
    return h


def gen_capacity_histories(hid0, rng):
    """capacities below the minimum, around and beyond the 16-bit limit, all embeddings"""
    hs = []
    caps = [-5, 0, 1, 3, 4, 65534, 65535, 65536, 65537, 70000, 131072 + 4, 2 ** 31 - 1, 2 ** 31, -2 ** 31 - 1, 2 ** 32 + 4, 2 ** 40]
    for j, cap in enumerate(caps):
        target = TARGETS[(j + rng.randrange(3)) % 3]
        kind = rng.choice(KINDS)
        h = HistC(hid0 + j, target, cap, kind)
        for k in rng.sample(range(50), 6):
            h.add(f"set {k}.0 v{h.newval(rng)}")
        h.add("len")
        h.add("items")
        h.add(f"del {rng.randrange(50)}.0")
        h.add("keys")
        hs.append(h)
    return hs


def gen_c(prop, seed, shard, nhist, tier):
    rng = random.Random(f"{prop}-{seed}-{shard}")
    hs = []
    hid0 = shard * 100000
    if shard == 0:
        hs += gen_capacity_histories(hid0 + 90000, rng)
    for i in range(nhist):
        hs.append(gen_history(hid0 + i, rng, prop, tier))
    return hs


if __name__ == "__main__":
    import sys
    prop, seed, shard, nhist = sys.argv[1], int(sys.argv[2]), int(sys.argv[3]), int(sys.argv[4])
    tier = sys.argv[5] if len(sys.argv) > 5 else "quick"
    sys.stdout.write("".join(h.text() for h in gen_c(prop, seed, shard, nhist, tier)))
