"""Configuration, runner and stand-alone check for the C-extension properties C12 / C13.

Meant to be wired into ./vp next to tools/props.py:
    PROPS_C[prop]                         per-property configuration (levels, tier sizes, runner)
    CRunner(root, build, tier)            .build() -> error string or None
                                          .run_shard((tag, ops_text, drv_ignored, runner, want_model))
                                          .harness  (executable: <ops> <trace> <viol>; usable by vp.ddmin / vp.harness_viols)
                                          .viols_for(hist_lines, prop, tmpname)
    gen_histories(prop, seed, shard, nhist, tier)
    nontrivial_c(impl_trace_path)         number of distinct histories with a leaf split, a branch (root) split and an emptied leaf
Stand-alone:  python3 tools/props_c.py check C12|C13 [--seed N] [--tier quick|thorough]"""
import os, sys, subprocess, hashlib, json, time, re, glob, shutil

sys.path.insert(0, os.path.dirname(os.path.abspath(__file__)))
import gen_c  # noqa: E402

TRUSTED_C = [
    "Coq 8.16.1 kernel (coqc); vm_compute only in Example/_refuted lemmas",
    "Axioms: none (every pinned theorem prints 'Closed under the global context')",
    "Extraction: Require Extraction + ExtrOcamlBasic only; nat/N/Z/positive stay inductive; OCaml 4.13.1; extract/c_driver.ml (parsing/printing glue)",
    "Hand-written array-level model coq/C/{Node,Tree,Run}.v tied to /repo/python/bplustree_c_src by the correspondence check of this run: "
    "harness/c/c_harness.py (dump hook _verif_dump compiled with -DKENTBECK_BPLUSTREE3_VERIF, sys.getrefcount deltas), tools/gen_c.py",
    "Modelled, not verified: CPython object protocol (tp_alloc/tp_free, GC tracking, tuple construction, exception state), "
    "comparison callbacks that raise, size_t wrap-around of size/modification_count, malloc failure paths",
    "Children are contained in their parent node in the model; use-after-free of node memory and the allocation protocol of "
    "subclass instances are covered only by the subprocess exit status / ASan runs",
    "Node blocks: the model proves the accounting of node_destroy's free log (C/NodeMem.v: each node freed once, after its subtree; "
    "nodes = blocks handed out); the code is tied to it only when /repo carries the counter hook build/c_nodes_hook.diff "
    "(oracle node-memory of harness/c/c_harness.py, silent otherwise); temporary split arrays (PyMem_Malloc) have no model counterpart",
]


class CRunner:
    def __init__(self, root, build, tier, coq_dir=None):
        self.root = root
        self.build_dir = build
        self.tier = tier
        self.harness = os.path.join(root, "harness", "c", "c_harness.py")
        self.extract_dir = os.path.join(build, "extract_c")
        self.driver = os.path.join(self.extract_dir, "c_model_driver")
        # where the model's .vo files are built: /verif/coq unless told otherwise (./vp builds
        # in its synced copy build/coq: pass coq_dir or set C_MODEL_COQ_DIR)
        self.coq_dir = coq_dir or os.environ.get("C_MODEL_COQ_DIR") or os.path.join(root, "coq")
        self.runs = os.path.join(build, "runs")
        if tier == "thorough":
            os.environ["C_HARNESS_ASAN"] = "1"
            os.environ["C_HARNESS_PLAIN"] = "1"

    # ---- builds
    def build_model_driver(self):
        os.makedirs(self.extract_dir, exist_ok=True)
        srcs = [os.path.join(self.coq_dir, "Common", "Base.v")] + \
            [os.path.join(self.coq_dir, "C", f) for f in ("Node.v", "Tree.v", "Run.v")] + \
            [os.path.join(self.root, "coq", "Extract", "ExtractC.v"), os.path.join(self.root, "extract", "c_driver.ml")]
        h = hashlib.sha256()
        for s in srcs:
            h.update(open(s, "rb").read())
        hsh = h.hexdigest()
        stamp = os.path.join(self.extract_dir, "stamp")
        if os.path.exists(stamp) and os.path.exists(self.driver) and open(stamp).read() == hsh:
            return None
        r = subprocess.run(["timeout", "1800", "make", "C/Run.vo"], cwd=self.coq_dir, stdout=subprocess.PIPE, stderr=subprocess.STDOUT)
        if r.returncode != 0:
            return "building C/Run.vo failed:\n" + r.stdout.decode("utf-8", "replace")[-3000:]
        r = subprocess.run(["timeout", "900", "coqc", "-Q", self.coq_dir, "BPT", "-o", os.path.join(self.extract_dir, "ExtractC.vo"),
                            os.path.join(self.root, "coq", "Extract", "ExtractC.v")], cwd=self.extract_dir,
                           stdout=subprocess.PIPE, stderr=subprocess.STDOUT)
        if r.returncode != 0:
            return "extraction failed:\n" + r.stdout.decode("utf-8", "replace")[-3000:]
        shutil.copy(os.path.join(self.root, "extract", "c_driver.ml"), os.path.join(self.extract_dir, "c_driver.ml"))
        r = subprocess.run("ocamlfind ocamlopt -O3 -w -a cmodel.mli cmodel.ml c_driver.ml -o c_model_driver", shell=True,
                           cwd=self.extract_dir, stdout=subprocess.PIPE, stderr=subprocess.STDOUT)
        if r.returncode != 0:
            return "compiling the model driver failed:\n" + r.stdout.decode("utf-8", "replace")[-3000:]
        open(stamp, "w").write(hsh)
        return None

    def build(self):
        """model driver (an error here is a /verif problem) and the extension from /repo's
           current sources (forced rebuild once per check)"""
        err = self.build_model_driver()
        if err:
            return "MODEL: " + err
        r = subprocess.run([sys.executable, self.harness, "--build", "--force"], stdout=subprocess.PIPE, stderr=subprocess.STDOUT)
        if r.returncode != 0:
            return r.stdout.decode("utf-8", "replace")
        return None

    # ---- running
    def run_shard(self, args):
        tag, text, _drv, _runner, want_model = args
        d = os.path.join(self.runs, tag)
        os.makedirs(d, exist_ok=True)
        ops = os.path.join(d, "ops")
        open(ops, "w").write(text)
        res = {"tag": tag, "dir": d}
        if want_model:
            with open(os.path.join(d, "model"), "w") as fh:
                r = subprocess.run([self.driver, ops], stdout=fh, stderr=subprocess.PIPE, timeout=3000)
            res["model_rc"] = r.returncode
            res["model_err"] = r.stderr.decode("utf-8", "replace")[-500:]
        env = dict(os.environ)
        try:
            idx = int(tag.rsplit("-", 1)[1])
        except ValueError:
            idx = -1
        if self.tier == "quick" and 0 <= idx < 5:
            # quick tier: the corpus shard and the first generated shards also run under AddressSanitizer
            # (node arrays come from posix_memalign, which neither the model nor PYTHONMALLOC=debug can see)
            env["C_HARNESS_ASAN"] = "1"
        r = subprocess.run([self.harness, ops, os.path.join(d, "impl"), os.path.join(d, "viol")],
                           stdout=subprocess.PIPE, stderr=subprocess.STDOUT, timeout=6000, env=env)
        res["impl_rc"] = r.returncode
        res["impl_out"] = r.stdout.decode("utf-8", "replace")[-2000:]
        # The traces are large (state dump + refcounts after every call), so every shard is
        # compared right here, at ALL levels, and then compacted: for a shard without
        # divergence and without VIOL line only the H lines are kept (so that a later
        # compare_traces still counts the histories); the numbers are handed back in `res`.
        if want_model and res.get("model_rc") == 0 and res["impl_rc"] == 0:
            prop = tag.split("-")[0]
            levels = PROPS_C.get(prop, {}).get("levels") or ALL_LEVELS
            nh, no, dv = compare_traces(os.path.join(d, "model"), os.path.join(d, "impl"), levels)
            res.update(n_hist=nh, n_obs=no, divergences=dv, nontrivial=nontrivial_c(os.path.join(d, "impl")))
            try:
                nviol = sum(1 for l in open(os.path.join(d, "viol")) if l.startswith("VIOL "))
            except OSError:
                nviol = 0
            if not dv and not nviol and os.environ.get("C_KEEP_TRACES") != "1":
                for f in ("model", "impl"):
                    compact_trace(os.path.join(d, f))
                res["compacted"] = True
        return res

    def viols_for(self, hist_lines, prop, tmpname):
        d = os.path.join(self.runs, tmpname)
        os.makedirs(d, exist_ok=True)
        open(os.path.join(d, "ops"), "w").write("\n".join(hist_lines) + "\n")
        try:
            subprocess.run([self.harness, os.path.join(d, "ops"), os.path.join(d, "impl"), os.path.join(d, "viol")],
                           stdout=subprocess.PIPE, stderr=subprocess.STDOUT, timeout=900)
        except subprocess.TimeoutExpired:
            return ["VIOL %s ? ? timeout (non-termination)" % prop]
        try:
            return [l.strip().replace("VIOL * ", "VIOL " + prop + " ", 1) for l in open(os.path.join(d, "viol"))
                    if l.startswith("VIOL " + prop + " ") or l.startswith("VIOL * ")]
        except OSError:
            return []


ALL_LEVELS = ["O", "T", "CH", "SZ", "TC", "RC", "E", "X"]


def compact_trace(path):
    """keep only the history headers of a trace that has already been compared"""
    try:
        heads = [l for l in open(path, errors="replace") if l.startswith("H ")]
        with open(path, "w") as fh:
            fh.writelines(heads)
    except OSError:
        pass


PROPS_C = {
    # levels: trace line prefixes compared with the model
    "C12": dict(target="c", impl="c", runner=CRunner, levels=["O", "T", "CH", "SZ", "TC", "X"],
                quick=(16, 100), thorough=(64, 100), trusted=TRUSTED_C),
    "C13": dict(target="c", impl="c", runner=CRunner, levels=["O", "T", "TC", "RC", "E", "X"],
                quick=(16, 100), thorough=(64, 100), trusted=TRUSTED_C),
}


def gen_histories(prop, seed, shard, nhist, tier):
    return gen_c.gen_c(prop, seed, shard, nhist, tier)


def corpus_texts(prop, root):
    return [open(f).read() for f in sorted(glob.glob(os.path.join(root, "corpus", prop, "*.ops")))]


def make_shards(prop, seed, tier, root):
    nshard, nhist = PROPS_C[prop][tier]
    shards = []
    corp = corpus_texts(prop, root)
    if corp:
        shards.append("".join(corp))
    for s in range(nshard):
        shards.append("".join(h.text() for h in gen_histories(prop, seed, s, nhist, tier)))
    return shards


def split_histories(path):
    cur, hid = None, None
    with open(path, errors="replace") as fh:
        for line in fh:
            if line.startswith("H "):
                if cur is not None:
                    yield hid, cur
                hid = line.split()[1]
                cur = [line.rstrip("\n")]
            elif cur is not None:
                cur.append(line.rstrip("\n"))
    if cur is not None:
        yield hid, cur


def nontrivial_c(impl_path):
    """distinct histories in which a leaf split AND a split of a branch/root happened and some
       leaf was emptied by deletions (seen in the implementation's own dump)"""
    n, seen = 0, set()
    for hid, lines in split_histories(impl_path):
        depth2 = any(l.startswith("T ") and "(B" in l.split(" ", 3)[3][2:] and re.search(r"\(B [^()]*\(B", l) for l in lines)
        empty = any(l.startswith("CH ") and " 0" in " " + " ".join(l.split()[3:]) and len(l.split()) > 4 for l in lines)
        if depth2 and empty:
            key = hashlib.md5("\n".join(l for l in lines if l.startswith("O ")).encode()).hexdigest()
            if key not in seen:
                seen.add(key)
                n += 1
    return n


def compare_traces(model_path, impl_path, levels):
    """first divergence per history at the given line prefixes -> (n_hist, n_obs, [divergences])"""
    divs, nh, nobs = [], 0, 0
    mh = dict(split_histories(model_path))
    seen = set()
    for hid, ilines in split_histories(impl_path):
        nh += 1
        seen.add(hid)
        mlines = mh.get(hid)
        if mlines is None:
            divs.append(dict(hid=hid, step=0, expected="<history missing in model trace>", actual=ilines[0]))
            continue
        fi = [l for l in ilines[1:] if l.split(" ", 1)[0] in levels]
        fm = [l for l in mlines[1:] if l.split(" ", 1)[0] in levels]
        nobs += len(fi)
        for k in range(max(len(fi), len(fm))):
            a = fi[k] if k < len(fi) else "<end of trace>"
            b = fm[k] if k < len(fm) else "<end of trace>"
            if a != b:
                step = (a.split() + ["?", "?", "?"])[2]
                divs.append(dict(hid=hid, step=step, expected=b[:600], actual=a[:600]))
                break
    for hid in mh:
        if hid not in seen:
            divs.append(dict(hid=hid, step=0, expected=mh[hid][0], actual="<history missing in implementation trace>"))
    return nh, nobs, divs


def history_from_ops(ops_path, hid):
    for h, lines in split_histories(ops_path):
        if h == hid:
            return lines
    return None


def ddmin(runner, hist_lines, prop, budget=120):
    head, ops = hist_lines[0], hist_lines[1:]
    runs = [0]

    def bad(sub):
        runs[0] += 1
        return bool(runner.viols_for([head] + sub, prop, prop + "-ddmin_c"))
    n = 2
    while len(ops) >= 2 and runs[0] < budget:
        chunk = max(1, len(ops) // n)
        reduced = False
        for i in range(0, len(ops), chunk):
            sub = ops[:i] + ops[i + chunk:]
            if bad(sub):
                ops, n, reduced = sub, max(n - 1, 2), True
                break
            if runs[0] >= budget:
                break
        if not reduced:
            if chunk == 1:
                break
            n = min(len(ops), n * 2)
    return [head] + ops


# ---------------------------------------------------------------- extraction cross-check
COQ_DIGEST = """From Coq Require Import List ZArith NArith.
From BPT Require Import Common.Base C.Node C.Tree C.Run.
Import ListNotations.
Definition dk (o : key) : Z := Z.of_N (kid o).
Definition digest (x : out) : list Z :=
  match x with
  | UNone => [0] | UVal v => [1; dk v] | UBool b => [2; if b then 1 else 0] | UNat n => [3; Z.of_nat n]
  | UKeyError => [4] | URuntimeError => [5] | UValueError => [6] | UStop => [7]
  | UKey k => [8; dk k] | UItem k v => [9; dk k; dk v]
  | UKeys l => 10 :: map dk l | UItems l => 11 :: flat_map (fun e => [dk (fst e); dk (snd e)]) l
  | UVals l => 12 :: map dk l | UNoTree => [13] | UNoIter => [14]
  | UOOB s => [15; Z.of_nat s] | UNullDeref s => [16; Z.of_nat s] | UFuel => [17]
  end%Z.
Definition K (o v : Z) : key := mkKey o (Z.to_N (2 * (16 * o + v))).
Definition V (n : Z) : key := mkKey 0 (Z.to_N (2 * n + 1)).
Definition go (cap : Z) (ops : list op) : list (list Z) :=
  digest (snd (st_init cap)) :: map digest (snd (run (fst (st_init cap)) ops)).
"""


def _kid(tok):
    if tok.startswith("v"):
        return 2 * int(tok[1:]) + 1
    a, b = tok.split(".")
    return 2 * (16 * int(a) + int(b))


def _coq_key(tok):
    a, b = tok.split(".")
    return "(K %s %s)" % (a, b)


def _coq_op(line):
    t = line.split()
    o = t[0]
    z = lambda tok: "(%s)%%Z" % tok.split(".")[0]
    if o == "set": return "OSet %s (V %s)" % (_coq_key(t[1]), t[2][1:])
    if o == "get": return "OGet %s" % z(t[1])
    if o == "del": return "ODel %s" % z(t[1])
    if o == "in": return "OIn %s" % z(t[1])
    if o == "len": return "OLen"
    if o in ("keys", "iter"): return "OKeys"
    if o == "items": return "OItems"
    if o == "it_new": return "OItNew %s %s" % (t[2], "true" if t[1] == "i" else "false")
    if o == "it_next": return "OItNext %s" % t[1]
    if o == "it_drop": return "OItDrop %s" % t[1]
    if o == "wget": return "WGet %s (V %s)" % (z(t[1]), t[2][1:])
    if o == "wvalues": return "WValues"
    if o == "wclear": return "WClear"
    if o == "wpop": return "WPop %s %s" % (z(t[1]), ("(Some (V %s))" % t[2][1:]) if len(t) > 2 else "None")
    if o == "wpopitem": return "WPopitem"
    if o == "wsetdefault": return "WSetdefault %s (V %s)" % (_coq_key(t[1]), t[2][1:])
    if o == "wupdate":
        a = t[1:]
        return "WUpdate [%s]" % "; ".join("(%s, V %s)" % (_coq_key(a[i]), a[i + 1][1:]) for i in range(0, len(a), 2))
    if o == "wcopy": return "WCopy"
    if o == "wswap": return "WSwap"
    if o == "wcap": return "WCapacity"
    raise ValueError(line)


def _digest_of_trace_line(rest):
    """digest of the text after 'O <hid> <step> '"""
    t = rest.split()
    head = t[0] if t else ""
    items = lambda s: [x for x in s.strip("[]").split() if x]
    body = rest[len(head):].strip()
    if head == "None": return [0]
    if head == "val": return [1, _kid(t[1])]
    if head in ("True", "False"): return [2, 1 if head == "True" else 0]
    if head.isdigit(): return [3, int(head)]
    if head == "KeyError": return [4]
    if head == "RuntimeError": return [5]
    if head == "ValueError": return [6]
    if head == "StopIteration": return [7]
    if head == "key": return [8, _kid(t[1])]
    if head == "item":
        k, v = t[1].split("=")
        return [9, _kid(k), _kid(v)]
    if head == "keys": return [10] + [_kid(x) for x in items(body)]
    if head == "items":
        out = [11]
        for x in items(body):
            k, v = x.split("=")
            out += [_kid(k), _kid(v)]
        return out
    if head == "vals": return [12] + [_kid(x) for x in items(body)]
    if head == "notree": return [13]
    if head == "noiter": return [14]
    if head == "OOB": return [15, int(t[1])]
    if head == "NULLDEREF": return [16, int(t[1])]
    if head == "OUTOFFUEL": return [17]
    return [-1]


def extraction_crosscheck(runner, shard_text, root, max_cases=40):
    """evaluate small histories with vm_compute inside coqc and compare with what the
       extracted OCaml driver printed for the same histories; returns (n_checked, [mismatch])"""
    d = os.path.join(runner.runs, "xcheck_c_p%d" % os.getpid())
    shutil.rmtree(d, ignore_errors=True)
    os.makedirs(d)
    hs = []
    cur = None
    for line in shard_text.splitlines():
        if line.startswith("H "):
            cur = [line]
            hs.append(cur)
        elif cur is not None and line.strip() and not line.startswith("#"):
            cur.append(line)
    # `cyc` is glue outside the model (see extract/c_driver.ml): histories using it are not re-evaluated
    hs = [h for h in hs if not any(l.split()[0] == "cyc" for l in h[1:])]
    small = [h for h in hs if len(h) <= 60 and 0 <= int([t for t in h[0].split() if t.startswith("cap=")][0][4:]) <= 70000][:max_cases]
    if not small:
        return 0, []
    ops = os.path.join(d, "ops")
    open(ops, "w").write("\n".join("\n".join(h) for h in small) + "\n")
    r = subprocess.run([runner.driver, ops], stdout=subprocess.PIPE, stderr=subprocess.PIPE, timeout=600)
    want = {}
    for line in r.stdout.decode().splitlines():
        if line.startswith("O "):
            _, hid, step, rest = line.split(" ", 3)
            want.setdefault(hid, []).append(_digest_of_trace_line(rest))
    v = [COQ_DIGEST]
    for i, h in enumerate(small):
        cap = [t for t in h[0].split() if t.startswith("cap=")][0][4:]
        v.append("Definition c%d := go (%s)%%Z [%s]." % (i, cap, "; ".join(_coq_op(l) for l in h[1:])))
        v.append('Goal True. idtac "CASE %s". Abort.\nEval vm_compute in c%d.' % (h[0].split()[1], i))
    open(os.path.join(d, "cases.v"), "w").write("\n".join(v) + "\n")
    r = subprocess.run(["timeout", "900", "coqc", "-Q", runner.coq_dir, "BPT", "cases.v"], cwd=d,
                       stdout=subprocess.PIPE, stderr=subprocess.STDOUT)
    out = r.stdout.decode("utf-8", "replace")
    if r.returncode != 0:
        return 0, ["coqc failed on cases.v: " + out[-800:]]
    bad = []
    n = 0
    for m in re.finditer(r"CASE (\S+)\n\s*= (.*?)\n\s*: list \(list Z\)", out, re.S):
        hid, term = m.group(1), m.group(2)
        got = [[int(x) for x in re.findall(r"-?\d+", grp)] for grp in re.findall(r"\[([^\[\]]*)\]", term)]
        n += 1
        if got != want.get(hid):
            bad.append("history %s: vm_compute %s  vs  extracted driver %s" % (hid, str(got)[:300], str(want.get(hid))[:300]))
    shutil.rmtree(d, ignore_errors=True)
    return n, bad


def check(prop, seed, tier, root):
    from concurrent.futures import ThreadPoolExecutor
    t0 = time.time()
    build = os.path.join(root, "build")
    cfg = PROPS_C[prop]
    runner = CRunner(root, build, tier)
    # 1. proof obligations (when the Props file exists)
    pv = os.path.join(root, "coq", "Props", prop + ".v")
    proofs = "Props/%s.v missing" % prop
    if os.path.exists(pv):
        r = subprocess.run(["timeout", "3000", "make", "Props/%s.vo" % prop], cwd=os.path.join(root, "coq"),
                           stdout=subprocess.PIPE, stderr=subprocess.STDOUT)
        proofs = "compiled" if r.returncode == 0 else "FAILED\n" + r.stdout.decode("utf-8", "replace")[-2000:]
    print(f"[{prop}] proofs: {proofs}", flush=True)
    # 2. builds
    err = runner.build()
    if err:
        print("ERROR: build failed (says nothing about the property):\n" + err[-3000:])
        return 2
    # 3./4. corpus + fresh cases
    shards = make_shards(prop, seed, tier, root)
    xtext = "".join(h.text() for h in gen_histories(prop, seed, 9999, 250, "quick"))     # small histories
    nx, xbad = extraction_crosscheck(runner, xtext, root)
    print(f"[{prop}] extraction cross-check (vm_compute vs extracted OCaml): {nx} histories, {len(xbad)} mismatches", flush=True)
    if xbad:
        print("ERROR: the extracted driver and Coq's own evaluation of the model disagree (a /verif problem):\n" + "\n".join(xbad[:3]))
        return 2
    # run directories are private to this process (somebody else may be checking the same property)
    jobs = [(f"{prop}-{i}-p{os.getpid()}", text, None, runner, True) for i, text in enumerate(shards)]
    with ThreadPoolExecutor(16) as ex:
        results = list(ex.map(runner.run_shard, jobs))
    n_hist = n_obs = nontriv = 0
    divs, viols = [], []
    for r in results:
        d = r["dir"]
        if r.get("model_rc", 0) != 0 or r.get("impl_rc", 0) != 0:
            print("ERROR: shard %s: model rc=%s %s | impl rc=%s %s" % (r["tag"], r.get("model_rc"), r.get("model_err", ""),
                                                                      r.get("impl_rc"), r.get("impl_out", "")[-1500:]))
            return 2
        nh, no, dv = r["n_hist"], r["n_obs"], r["divergences"]     # compared (and compacted) in run_shard
        n_hist += nh
        n_obs += no
        for x in dv:
            x["dir"] = d
        divs += dv
        nontriv += r["nontrivial"]
        for l in open(os.path.join(d, "viol")):
            if l.startswith("VIOL " + prop + " "):
                viols.append((d, l.strip()))
    rc = 0
    for x in divs[:5]:
        print("DIVERGENCE", json.dumps(x))
    reported = set()
    for d, v in viols:
        hid = v.split()[2]
        if hid in reported or len(reported) >= 3:
            continue
        reported.add(hid)
        hist = history_from_ops(os.path.join(d, "ops"), hid) or []
        small = ddmin(runner, hist, prop) if hist else hist
        again = runner.viols_for(small, prop, "confirm_c") if small else [v]
        os.makedirs(os.path.join(build, "replays"), exist_ok=True)
        path = os.path.join(build, "replays", f"{prop}-{hid}.json")
        json.dump(dict(property=prop, kind="impl-violation", target="c", ops=small, oracle=(again or [v])[0], seed=seed),
                  open(path, "w"), indent=1)
        print(f"VIOLATION property={prop} replay={path}")
        print("  " + (again or [v])[0])
        print("  " + "\n  ".join(small[:40]))
        rc = 1
    if divs and rc == 0:
        print(f"VIOLATION property={prop} no-failing-input-found (model and implementation disagree)")
        rc = 1
    if rc == 0 and os.environ.get("C_KEEP_TRACES") != "1":
        for r in results:
            shutil.rmtree(r["dir"], ignore_errors=True)
    print(f"[{prop}] tier={tier} seed={seed} histories={n_hist} observations={n_obs} nontrivial={nontriv} "
          f"divergences={len(divs)} oracle_violations={len(viols)} wall={round(time.time() - t0, 1)}s -> {'FAIL' if rc else 'ok'}")
    return rc


if __name__ == "__main__":
    a = sys.argv[1:]
    if len(a) >= 2 and a[0] == "check":
        seed = int(a[a.index("--seed") + 1]) if "--seed" in a else int(os.environ.get("VERIF_SEED", "1") or 1)
        tier = a[a.index("--tier") + 1] if "--tier" in a else (os.environ.get("VERIF_TIER", "quick") or "quick")
        sys.exit(check(a[1], seed, tier, os.path.dirname(os.path.dirname(os.path.abspath(__file__)))))
    print(__doc__)
    sys.exit(2)
