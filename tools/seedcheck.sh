#!/bin/bash
# seedcheck.sh <PROP> <name> [checks...]
# Confirm the seeded change left in the scratch worktree /tmp/mut_<PROP>, store it under
# seeded/<name>, and run the given checks (default: <PROP>) against THAT WORKTREE from a scratch
# copy of /verif (every "/repo" in the copy's scripts and harnesses is redirected to the worktree),
# so that neither /repo nor /verif/evidence nor /verif/build is touched and other runs can go on.
# The scratch copy and the worktree (with their build output) are removed at the end.
P=$1; NAME=$2; shift 2; CHECKS=${@:-$P}
W=/tmp/mut_$P
ALT=/tmp/verif_alt_$NAME
mkdir -p /verif/seeded/$NAME
/verif/tools/confirm_seed.sh $W > /verif/seeded/$NAME/confirm.txt 2>&1
cp $W/OUT/* /verif/seeded/$NAME/ 2>/dev/null
rm -rf $ALT; mkdir -p $ALT
rsync -a --exclude build/runs --exclude build/cov --exclude .git --exclude build/replays /verif/ $ALT/
grep -rlI "/repo" $ALT/vp $ALT/tools $ALT/harness --include='*' 2>/dev/null | grep -v "/target/" | xargs sed -i "s#/repo#$W#g"
: > /verif/seeded/$NAME/checks.txt
cd $ALT
for C in $CHECKS; do
  echo "== ./vp check $C   (against $W)" >> /verif/seeded/$NAME/checks.txt
  timeout 1500 ./vp check $C 2>&1 | grep -E "VIOLATION|KNOWN|-> (ok|FAIL)|ERROR" | sed "s#$ALT#/verif#g" >> /verif/seeded/$NAME/checks.txt
  for f in $(grep -o "replay=[^ ]*" /verif/seeded/$NAME/checks.txt | cut -d= -f2 | sort -u | head -2); do
    cp $(echo $f | sed "s#^/verif#$ALT#") /verif/seeded/$NAME/ 2>/dev/null
  done
done
cd /verif
rm -rf $ALT
git -C /repo worktree remove --force $W
tail -8 /verif/seeded/$NAME/confirm.txt; cat /verif/seeded/$NAME/checks.txt
