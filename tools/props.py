"""Per-property configuration, runners, verdict logic and evidence for ./vp."""
import os, json, time, subprocess, hashlib, glob, re
import gen

TRUSTED_RUST = [
    "Coq 8.16.1 kernel (coqc); no native_compute; vm_compute only in Example/_refuted lemmas",
    "Axioms: none (every pinned theorem prints 'Closed under the global context')",
    "Extraction: Require Extraction + ExtrOcamlBasic only (bool, option, unit, list, prod, sumbool, sumor mapped; andb/orb inlined); nat/N/Z/positive stay inductive; OCaml 4.13.1; extract/driver.ml (parsing/printing glue)",
    "Hand-written model tied to /repo by the correspondence check of this run: harness/rust (Rust harness, cfg-guarded read-only hooks), tools/gen.py, trace comparison in tools/props.py",
    "Modelled, not verified: Vec/slice semantics incl. binary_search on sorted slices, mem::take/replace, Rust ownership and safety of safe code",
    "Model bound: fewer than 2^32-1 slots per arena",
    "Model B keeps children inside their parents; the gap to the arena layout is covered by comparing complete arena dumps after every call (not by proof)",
]

ASSUMPTIONS_RUST = [
    "the theorems are about hand-written Coq models; the tie to /repo is this run's correspondence check (finite, generator-bounded)",
    "Vec / slice::binary_search (on sorted slices) / mem::take behave as documented; safe Rust has no undefined behaviour",
    "fewer than 2^32-1 slots per arena (hypothesis `fits` of the history theorems)",
    "key comparison is a total order that does not panic or mutate the map",
]

# levels: trace line prefixes compared for the property
PROPS = {
    "C01": dict(target="rust", levels=["O", "S2", "CH"], quick=(16, 14), thorough=(64, 40)),
    "C02": dict(target="rust", levels=["O", "S2", "CH"], quick=(16, 12), thorough=(64, 40)),
    "C03": dict(target="rust", levels=["O"], quick=(16, 12), thorough=(64, 40)),
    "C04": dict(target="rust", levels=["O", "S2", "CH"], quick=(16, 14), thorough=(64, 40)),
    "C05": dict(target="rust", levels=["O", "S3"], quick=(16, 10), thorough=(64, 30)),
    "C06": dict(target="rust", levels=["O", "S3"], quick=(16, 14), thorough=(64, 40)),
    "C10": dict(target="rust", levels=["O", "S2", "CH"], quick=(16, 10), thorough=(64, 30)),
    "C11": dict(target="rust", levels=["O", "S3", "CT"], quick=(16, 12), thorough=(64, 40)),
    "C14": dict(target="rust", levels=["O", "S3"], quick=(16, 46), thorough=(64, 120), gen="c14"),
    "C15": dict(target="rust", levels=["O", "S3"], quick=(16, 30), thorough=(64, 100), gen="c15"),
    "C16": dict(target="arena", levels=["O", "S3"], quick=(16, 16), thorough=(64, 60)),
}


# census of unsafe sites in the crate (file -> (unsafe blocks, unsafe fns)); the model
# has exactly one unchecked access reachable from safe code (iteration.rs try_get_next_item)
UNSAFE_CENSUS = {"compact_arena.rs": (0, 4), "iteration.rs": (1, 0), "node.rs": (0, 3)}   # test modules excluded


def unsafe_census(repo="/repo"):
    out = {}
    for f in sorted(glob.glob(os.path.join(repo, "rust", "src", "*.rs"))):
        blocks = fns = 0
        text = open(f, errors="replace").read()
        # unit-test modules are not part of the modelled code: cut each `#[cfg(test)] mod x { ... }` block
        # (up to its closing brace at column 0, rustfmt layout) - NOT everything after it: some files
        # carry their test module in the middle
        while True:
            m = re.search(r"^#\[cfg\(test\)\]\s*\nmod\s+\w+\s*\{", text, re.M)
            if not m:
                break
            e = re.compile(r"^\}\s*$", re.M).search(text, m.end())
            text = text[:m.start()] + (text[e.end():] if e else "")
        for line in text.split("\n"):
            t = line.strip()
            if t.startswith("//"):
                continue
            t = t.split("//")[0]
            blocks += len(re.findall(r"\bunsafe\s*\{", t))
            fns += len(re.findall(r"\bunsafe\s+(?:fn|impl|trait)\b", t))
        if blocks or fns:
            out[os.path.basename(f)] = (blocks, fns)
    return out


EXT = {}
try:
    import props_py
    PROPS.update(props_py.PROPS_PY)
    for k in props_py.PROPS_PY:
        EXT[k] = props_py
except Exception as e:  # pragma: no cover
    print("note: Python-slice configuration not loaded:", e)
try:
    import props_c
    PROPS.update(props_c.PROPS_C)
    for k in props_c.PROPS_C:
        EXT[k] = props_c
except Exception as e:  # pragma: no cover
    print("note: C-slice configuration not loaded:", e)


class RustRunner:
    def __init__(self, harness, harness_release, vp):
        self.harness = harness
        self.harness_release = harness_release
        self.vp = vp

    def run_shard(self, args):
        tag, text, drv, _runner, want_model = args
        return self.vp.run_shard((tag, text, drv, self.harness, want_model))


def corpus_texts(prop, root):
    out = []
    for f in sorted(glob.glob(os.path.join(root, "corpus", prop, "*.ops"))):
        out.append(open(f).read())
    return out


def make_shards(prop, cfg, seed, tier, root):
    nshard, nhist = cfg[tier]
    shards = []
    corp = corpus_texts(prop, root)
    if corp:
        shards.append("".join(corp))
    if cfg["target"] == "rust" and not cfg.get("gen"):
        # deep / large-capacity histories, one per shard so that they run in parallel
        for h in gen.gen_deep(prop, seed, tier):
            shards.append(h.text())
        if prop == "C03":
            for h in gen.gen_c03_sweep(seed):
                shards.append(h.text())
    if prop == "C10":
        shards.append("".join(h.text() for h in gen.gen_capacity_histories(seed)))
    for s in range(nshard):
        hs = gen_histories(prop, cfg, seed, s, nhist, tier)
        shards.append("".join(h.text() for h in hs))
    return shards


# small-scope exhaustive exploration (extract/driver.ml --explore): for each (capacity, number of
# keys) the model driver enumerates EVERY logical tree reachable by insert / remove over that key
# universe (the closure is finite and is reached: closed=true) and prints one flat history per
# transition; the implementation and the model are then compared on all of them.  This is a
# validation of the model against the code (bounded, like every other history), not a proof.
# entries: (capacity, number of keys, depth, start); depth 0 = the whole closure from the empty map ("-");
# otherwise every operation sequence of at most `depth` insert/remove calls from the start state built by
# inserting keys in the given order (asc:n, desc:n, zig:n, mid:n, rnd:S:n with S replaced by VERIF_SEED):
# the start states have three levels, so the neighbourhoods cover branch-level borrow / merge / root collapse
EXPLORE = {
    "quick": [(4, 10, 0, "-"), (5, 10, 0, "-"), (6, 10, 0, "-"),
              (4, 16, 4, "asc:15"), (4, 16, 3, "desc:15"), (4, 16, 3, "rnd:S:15"), (4, 16, 3, "zig:16"),
              (5, 20, 3, "asc:18"), (5, 20, 3, "desc:18"), (5, 20, 3, "rnd:S:19"),
              (6, 26, 3, "asc:24"), (6, 26, 3, "rnd:S:25"),
              (7, 32, 3, "desc:30"), (7, 32, 2, "rnd:S:31"), (8, 38, 2, "asc:36")],
    "thorough": [(4, 12, 0, "-"), (5, 11, 0, "-"), (6, 12, 0, "-"), (7, 12, 0, "-"), (8, 13, 0, "-"),
                 (4, 16, 5, "asc:15"), (4, 16, 4, "desc:15"), (4, 16, 4, "rnd:S:15"), (4, 16, 4, "zig:16"), (4, 16, 4, "mid:16"),
                 (5, 20, 4, "asc:18"), (5, 20, 4, "desc:18"), (5, 20, 4, "rnd:S:19"), (5, 20, 3, "zig:20"),
                 (6, 26, 3, "asc:24"), (6, 26, 3, "desc:24"), (6, 26, 3, "rnd:S:25"), (6, 26, 3, "zig:26"),
                 (7, 32, 3, "asc:30"), (7, 32, 3, "desc:30"), (7, 32, 3, "rnd:S:31"),
                 (8, 38, 3, "asc:36"), (8, 38, 3, "rnd:S:37"), (9, 44, 2, "asc:42"), (16, 160, 1, "asc:150")],
}
EXPLORE_MAXSTATES = 400000
# C extension (extract/c_driver.ml --explore ... TARGET KIND): the C tree never merges, so emptied leaves are part of
# the shape; target = plain type / Python subclass / package wrapper, kind = key type of the harness
EXPLORE_C = {
    "quick": [(4, 7, 0, "-", "c", "int"), (5, 7, 0, "-", "csub", "str"), (6, 7, 0, "-", "cwrap", "obj"),
              (4, 14, 3, "asc:13", "cwrap", "int"), (5, 18, 2, "rnd:S:17", "c", "isub"), (7, 30, 1, "asc:29", "csub", "mstr")],
    "thorough": [(4, 8, 0, "-", "c", "int"), (5, 8, 0, "-", "csub", "str"), (6, 8, 0, "-", "cwrap", "obj"), (7, 9, 0, "-", "c", "ssub"),
                 (4, 14, 3, "asc:13", "cwrap", "int"), (4, 14, 3, "desc:13", "c", "ustr"), (5, 18, 3, "rnd:S:17", "c", "isub"),
                 (5, 18, 3, "asc:16", "cwrap", "wstr"), (6, 22, 2, "asc:20", "csub", "obj"), (7, 30, 2, "asc:29", "csub", "mstr")],
}
# one larger scope per property in the quick tier, so that the properties together cover the thorough closures
EXPLORE_QUICK_EXTRA = {"C04": [(4, 12, 0, "-")], "C01": [(5, 11, 0, "-")], "C02": [(6, 12, 0, "-")], "C06": [(7, 12, 0, "-")],
                       "C11": [(8, 13, 0, "-")], "C05": [(4, 16, 5, "asc:15")], "C10": [(4, 9, 0, "-", "try"), (5, 9, 0, "-", "item"), (4, 16, 3, "asc:15", "try"), (5, 20, 3, "desc:18", "item"), (6, 26, 2, "asc:24", "try")], "C03": [(5, 20, 4, "asc:18")]}
# the same for the pure-Python map (extract/py_driver.ml --explore; minimum occupancy (cap-1)//2, so the
# shapes differ from the Rust ones); the Python harness is slower, hence the smaller scopes
EXPLORE_PY = {
    "quick": [(4, 7, 0, "-"), (5, 8, 0, "-"),
              (4, 14, 3, "asc:13"), (4, 14, 2, "desc:13"), (4, 14, 3, "rnd:S:13"),
              (5, 18, 2, "asc:16"), (5, 18, 2, "rnd:S:17"), (6, 22, 2, "desc:20"), (7, 30, 1, "asc:28")],
    "thorough": [(4, 8, 0, "-"), (5, 9, 0, "-"), (6, 9, 0, "-"), (7, 10, 0, "-"),
                 (4, 14, 3, "asc:13"), (4, 14, 3, "desc:13"), (4, 14, 3, "rnd:S:13"), (4, 14, 3, "zig:14"),
                 (5, 18, 3, "asc:16"), (5, 18, 3, "desc:16"), (5, 18, 3, "rnd:S:17"),
                 (6, 22, 3, "asc:20"), (6, 22, 3, "desc:20"), (6, 22, 2, "rnd:S:21"),
                 (7, 30, 2, "asc:28"), (7, 30, 2, "desc:28"), (8, 36, 2, "asc:34")],
}


def explore_shards(prop, cfg, tier, drv, seed=1, runner=None, nsplit=16):
    """returns (shard texts, [dict(capacity, keys, states, transitions, closed)])"""
    scopes = EXPLORE[tier] + (EXPLORE_QUICK_EXTRA.get(prop, []) if tier == "quick" else [])
    if prop in ("C07", "C08", "C09") and runner is not None and getattr(runner, "driver", None):
        drv, scopes = runner.driver, EXPLORE_PY[tier]
    elif prop in ("C12", "C13") and runner is not None and getattr(runner, "driver", None):
        drv, scopes = runner.driver, EXPLORE_C[tier]
    elif cfg.get("target") == "arena":
        scopes = [("arena", 5)] if tier == "quick" else [("arena", 6), ("arena", 7)]
    elif cfg.get("target") != "rust" or cfg.get("gen") or prop in EXT:
        return [], []
    texts = [[] for _ in range(nsplit)]
    info = []
    k = 0
    for sc in scopes:
        if sc[0] == "arena":
            cap, u, depth, start = 0, sc[1], 0, "-"
            cmd = [drv, "--explore-arena", str(u)]
        else:
            cap, u, depth, start = sc[:4]
            start = start.replace(":S:", ":%d:" % (seed % 100000))
            cmd = [drv, "--explore", str(cap), str(u), str(EXPLORE_MAXSTATES), str(depth), start] + list(sc[4:])
        r = subprocess.run(cmd, stdout=subprocess.PIPE, stderr=subprocess.PIPE, timeout=1800)
        m = re.search(r"EXPLORE cap=(\d+) keys=(\d+) states=(\d+) transitions=(\d+) longest_path=(\d+) closed=(\w+) structural=(\d+)", r.stderr.decode())
        if r.returncode != 0 or not m:
            raise RuntimeError("model driver --explore %d %d failed: %s" % (cap, u, r.stderr.decode()[-300:]))
        info.append(dict(capacity=int(m.group(1)), keys=int(m.group(2)), states=int(m.group(3)), transitions=int(m.group(4)),
                         longest_path=int(m.group(5)), closed=(m.group(6) == "true"), structural_transitions=int(m.group(7)), depth=depth, start=start))
        for blk in r.stdout.decode().split("\nH ")[0:]:
            if not blk:
                continue
            blk = blk if blk.startswith("H ") else "H " + blk
            texts[k % nsplit].append(blk if blk.endswith("\n") else blk + "\n")
            k += 1
    return ["".join(t) for t in texts if t], info


def gen_histories(prop, cfg, seed, s, nhist, tier):
    if prop in EXT:
        return EXT[prop].gen_histories(prop, seed, s, nhist, tier)
    if cfg["target"] == "arena":
        return gen.gen_arena(seed, s, nhist, tier)
    if cfg.get("gen") == "c14":
        return gen.gen_c14(seed, s, nhist, tier)
    if cfg.get("gen") == "c15":
        return gen.gen_c15(seed, s, nhist, tier)
    return gen.gen_rust(prop, seed, s, nhist, tier)


def history_from_ops(ops_path, hid):
    cur = None
    for line in open(ops_path):
        if line.startswith("H "):
            if cur is not None:
                return cur
            if line.split()[1] == hid:
                cur = [line.rstrip("\n")]
        elif cur is not None:
            cur.append(line.rstrip("\n"))
    return cur


def verdict(prop, cfg, tier, seed, pr, results, runner, drv, t0, vp):
    known = vp.load_known()
    levels = cfg["levels"]
    n_hist = n_obs = nontriv = 0
    divs, viols = [], []
    samples = []
    for r in results:
        d = r["dir"]
        if r.get("impl_rc", 0) == 4 and r.get("model_rc", 0) == 0:
            # the harness's watchdog stopped a call that did not return: its VIOL * line names the history
            try:
                for l in open(os.path.join(d, "viol")):
                    if l.startswith("VIOL " + prop + " ") or l.startswith("VIOL * "):
                        viols.append((d, l.strip().replace("VIOL * ", "VIOL " + prop + " ", 1)))
            except OSError:
                pass
            n_hist += 1
            continue
        if r.get("model_rc", 0) != 0 or r.get("impl_rc", 0) != 0:
            divs.append(dict(hid="?", step=0, expected="model rc=%s %s" % (r.get("model_rc"), r.get("model_err", "")),
                             actual="impl rc=%s %s" % (r.get("impl_rc"), r.get("impl_out", "")[-300:]), dir=d))
            continue
        if r.get("release_differs"):
            divs.append(dict(hid="?", step=0, expected="release-profile trace identical to debug-profile trace",
                             actual="traces differ (overflow / debug_assert dependent behaviour)", dir=d))
        if "divergences" in r:
            # the runner compared (and compacted) the shard's traces itself
            nh, no, dv = r.get("n_hist", 0), r.get("n_obs", 0), list(r["divergences"])
            pre_nontriv = r.get("nontrivial", 0)
        else:
            nh, no, dv = vp.compare_traces(os.path.join(d, "model"), os.path.join(d, "impl"), levels)
            pre_nontriv = None
        n_hist += nh
        n_obs += no
        for x in dv:
            x["dir"] = d
        divs += dv
        if pre_nontriv is not None:
            nontriv += pre_nontriv
        elif hasattr(runner, "nontrivial_stats"):
            nontriv += runner.nontrivial_stats(os.path.join(d, "impl"))
        else:
            nontriv += vp.nontrivial_stats(os.path.join(d, "impl"), cfg["target"])
        try:
            vlines = open(os.path.join(d, "viol")).readlines()
        except OSError:
            vlines = []
        for l in vlines:
            if l.startswith("VIOL " + prop + " "):
                viols.append((d, l.strip()))
            elif l.startswith("VIOL * "):          # non-termination: a violation of whatever is being checked
                viols.append((d, l.strip().replace("VIOL * ", "VIOL " + prop + " ", 1)))
        if len(samples) < 3:
            ops = open(os.path.join(d, "ops")).read().split("\n")
            if len(ops) < 2000 or len(samples) == 0:
                samples.append(ops[:14])
    if prop in ("C05", "C15"):
        cen = unsafe_census()
        if cen != UNSAFE_CENSUS:
            divs.append(dict(hid="?", step=0, expected="unsafe sites %s" % UNSAFE_CENSUS,
                             actual="unsafe sites %s (the model covers only the listed unchecked accesses)" % cen))
    # histogram of op kinds
    histo = {}
    for r in results:
        try:
            for l in open(os.path.join(r["dir"], "ops")):
                k = l.strip().split(" ", 1)[0]
                if k == "A":
                    k = "A " + l.split()[1]
                histo[k] = histo.get(k, 0) + 1
        except OSError:
            pass
    rc = 0
    out_lines = []
    replay_dir = os.path.join(vp.ROOT, "build", "replays")
    os.makedirs(replay_dir, exist_ok=True)
    reported = set()
    known_hits = set()
    # 5a. direct oracle failures: minimise and report
    hanging = any("non-termination" in v for _, v in viols)
    for d, v in viols:
        if prop == "C15" and "non-termination" in v:
            # C15 speaks about unchecked accesses only: a walk that never ends on a map the helper API has turned
            # into a cyclic graph is not undefined behaviour (the history is lost for the comparison, nothing more)
            continue
        k = vp.match_known(prop, v, known)
        if k:
            known_hits.add(k["what"])
            continue
        hid = v.split()[2]
        if hid in reported or len(reported) >= 3:
            continue
        reported.add(hid)
        hist = history_from_ops(os.path.join(d, "ops"), hid) or []
        if hanging:
            small, again = hist, [v]        # every re-run of a hanging history costs a watchdog period: not minimised
        else:
            small = vp.ddmin(hist, runner, prop) if hist else hist
            again = vp.viols_of(small, runner, prop, prop + "-confirm") if small else [v]
        path = os.path.join(replay_dir, f"{prop}-{hid}.json")
        json.dump(dict(property=prop, kind="impl-violation", target=cfg["target"], ops=small,
                       oracle=(again or [v])[0], seed=seed), open(path, "w"), indent=1)
        out_lines.append(f"VIOLATION property={prop} replay={path}")
        rc = 1
    # 5b. correspondence or proof obligation broken, oracle silent
    if rc == 0 and (divs or pr["failed"]):
        # search further with the oracle only
        extra = []
        nshard, nhist = cfg[tier]
        from concurrent.futures import ThreadPoolExecutor
        jobs = []
        for s in range(16):
            hs = gen_histories(prop, cfg, seed + 7919, 1000 + s, nhist * 3, tier)
            jobs.append((f"{prop}-x{s}", "".join(h.text() for h in hs), drv, runner, False))
        with ThreadPoolExecutor(16) as ex:
            xs = list(ex.map(runner.run_shard, jobs))
        found = None
        for r in xs:
            try:
                xlines = open(os.path.join(r["dir"], "viol")).readlines()
            except OSError:
                xlines = []              # the harness died before it wrote anything (already counted as a divergence)
            for l in xlines:
                if (l.startswith("VIOL " + prop + " ") or l.startswith("VIOL * ")) and not vp.match_known(prop, l, known):
                    found = (r["dir"], l.strip())
                    break
            if found:
                break
        if found:
            d, v = found
            hid = v.split()[2]
            hist = history_from_ops(os.path.join(d, "ops"), hid) or []
            small = vp.ddmin(hist, runner, prop)
            path = os.path.join(replay_dir, f"{prop}-{hid}.json")
            json.dump(dict(property=prop, kind="impl-violation", target=cfg["target"], ops=small, oracle=v, seed=seed),
                      open(path, "w"), indent=1)
            out_lines.append(f"VIOLATION property={prop} replay={path}")
        else:
            path = os.path.join(replay_dir, f"{prop}-unproved.json")
            first = divs[0] if divs else None
            hist = history_from_ops(os.path.join(first["dir"], "ops"), first["hid"]) if first and "dir" in first and first["hid"] != "?" else None
            json.dump(dict(property=prop, kind="proof" if pr["failed"] and not divs else "correspondence",
                           target=cfg["target"], levels=levels,
                           theorems_not_checked=pr["failed"], proof_detail=pr.get("detail", "")[-1500:],
                           first_divergence=first, n_divergent_histories=len(divs), ops=hist, seed=seed,
                           note="the model and the implementation disagree at the compared levels (or a proof obligation no longer checks); "
                                "the direct oracle found no failing input in the extra search"),
                      open(path, "w"), indent=1)
            out_lines.append(f"VIOLATION property={prop} replay={path} no-failing-input-found")
        rc = 1
    for w in sorted(known_hits):
        print(f"KNOWN-FINDING: property={prop} {w}")
    ev = dict(
        property_id=prop, tier=tier, seed=seed, level="proof", wall_s=round(time.time() - t0, 1),
        violations=len(out_lines),
        coverage=dict(
            obligations=pr["obligations"], discharged=pr["discharged"],
            checker_cmd=f"make Props/{prop}.vo (coq_makefile, full .vo build) && coqc Chk_{prop}.v (Print Assumptions of every pinned theorem) && forbidden-token scan of the dependency cone",
            trusted_base=cfg.get("trusted", TRUSTED_RUST),
            theorems=pr.get("names", []),
            extraction_crosscheck_histories=pr.get("xcheck_examples", 0),
            miri_sample_op_lines=pr.get("miri_ops", 0),
            unproved=pr["failed"], coqchk=pr.get("coqchk", "not run in the quick tier"),
            evaluations=n_hist, traces_validated_against_impl=n_hist, observations_compared=n_obs,
            distinct_nontrivial=nontriv + sum(x.get("structural_transitions", 0) for x in pr.get("small_scope", [])),
            rule=("histories generated by tools/gen.py (seeded); compared line by line at levels %s against the model; "
                  "non-trivial = distinct histories in which the number of allocated leaves both grew and shrank (split and merge happened), plus, "
                  "for the small-scope exploration, the (state, operation) pairs - distinct by construction - whose operation changes the number of nodes (a split, a merge or a root change)"
                  if cfg["target"] != "arena" else
                  "arena histories generated by tools/gen.py (seeded); compared at levels %s; non-trivial = distinct histories with a released slot that was later reused, plus the explored (state, allocate) pairs that reuse a released slot") % levels,
            op_histogram=histo, divergent_histories=len(divs), oracle_violations=len(viols),
            small_scope_exhaustive=pr.get("small_scope", []),
            small_scope_rule=("for each (capacity, keys) entry the extracted model enumerated every logical tree reachable from new(capacity) by "
                              "insert/remove over that key universe (closed=true: the closure was reached) and one history per (state, operation) "
                              "pair was run through the implementation and the model and compared like all other histories; these histories are "
                              "included in evaluations" if pr.get("small_scope") else "not applicable to this property's target"),
            samples=samples,
        ),
        assumptions=cfg.get("assumptions", ASSUMPTIONS_RUST),
    )
    vp.write_evidence(prop, ev)
    # keep the traces of failing shards only (disk space)
    keep = set(x.get("dir") for x in divs if x.get("dir")) | set(d for d, _ in viols)
    import shutil
    for r in results:
        if r["dir"] not in keep:
            for f in ("model", "impl", "impl_rel", "viol_rel"):
                try:
                    os.remove(os.path.join(r["dir"], f))
                except OSError:
                    pass
    for l in out_lines:
        print(l)
    print(f"[{prop}] tier={tier} seed={seed} histories={n_hist} observations={n_obs} nontrivial={nontriv} "
          f"divergences={len(divs)} oracle_violations={len(viols)} wall={ev['wall_s']}s -> {'FAIL' if rc else 'ok'}")
    return rc


def replay(path, vp):
    j = json.load(open(path))
    prop = j["property"]
    ops = j.get("ops") or []
    if not ops:
        print("replay file has no operation list:", json.dumps(j, indent=1)[:2000])
        return 1
    drv = vp.build_extract()
    harness, out = vp.build_harness("debug")
    d = os.path.join(vp.RUNS, "replay")
    os.makedirs(d, exist_ok=True)
    r = vp.run_shard(("replay", "\n".join(ops) + "\n", drv, harness, True))
    print(open(os.path.join(d, "viol")).read())
    nh, no, dv = vp.compare_traces(os.path.join(d, "model"), os.path.join(d, "impl"), PROPS[prop]["levels"])
    for x in dv:
        print("DIVERGENCE", json.dumps(x))
    bad = any(l.startswith("VIOL " + prop) for l in open(os.path.join(d, "viol"))) or dv
    print(f"replay of {path}: {len(ops) - 1} operations; " +
          (f"property {prop} VIOLATED on the current tree (see lines above)" if bad
           else f"no violation of {prop} and no model/implementation divergence on the current tree"))
    if bad:
        print(f"VIOLATION property={prop} replay={path}")
    return 1 if bad else 0
