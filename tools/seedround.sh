#!/bin/bash
# seedround.sh PROP:name[:extra checks,comma separated] ...   -- runs tools/seedcheck.sh for each, three lanes in parallel, prints a summary
i=0
for spec in "$@"; do
  P=${spec%%:*}; rest=${spec#*:}; NAME=${rest%%:*}; EX=""
  [[ "$rest" == *:* ]] && EX=$(echo ${rest#*:} | tr ',' ' ')
  lane=$((i % 3)); i=$((i+1))
  echo "tools/seedcheck.sh $P $NAME $P $EX > /tmp/sc_$NAME.log 2>&1" >> /tmp/seedlane_$lane.sh
done
for l in 0 1 2; do [ -f /tmp/seedlane_$l.sh ] && (bash /tmp/seedlane_$l.sh; rm -f /tmp/seedlane_$l.sh) & done
wait
for spec in "$@"; do rest=${spec#*:}; NAME=${rest%%:*}; echo "--- $NAME"; grep -E "exit=|VIOL|-> |does not apply" /tmp/sc_$NAME.log | tail -6; done
