#!/usr/bin/env python3
"""seedprompts.py <outdir>: one prompt file per property for a seeding round (fresh sub-agents).
Each prompt contains the property text (the only thing the agent learns about the checks), the
worktree path /tmp/mut_<ID>, and the one-line summaries of the changes earlier rounds already
produced for that property (so that the agent does not spend its time re-deriving them) -
nothing about the checks themselves."""
import json, glob, os, sys
ROOT = os.path.dirname(os.path.dirname(os.path.abspath(__file__)))
out = sys.argv[1]
os.makedirs(out, exist_ok=True)
tpl = open(os.path.join(ROOT, "tools", "mut_prompt.txt")).read()
cnote = ("\n\nNOTE for the C extension: it builds without setuptools: `cd WORKTREE/python && gcc -O1 -g -shared -fPIC -std=c99 "
         "-fno-strict-aliasing -I$(python3 -c \"import sysconfig;print(sysconfig.get_paths()['include'])\") -Ibplustree_c_src "
         "bplustree_c_src/*.c -o bplustree_c$(python3 -c \"import sysconfig;print(sysconfig.get_config_var('EXT_SUFFIX'))\")` "
         "(python3 is 3.11; gcc -fsanitize=address is available; there is no pytest). Your change must be in "
         "python/bplustree_c_src/*.c|h (or python/bplustree/__init__.py for the wrapper); the demo must build the extension from "
         "WORKTREE sources itself (into a temp dir) and import it from there.\n")
pynote = ("\n\nNOTE: your change must be in python/bplustree/bplus_tree.py; the demo imports it with sys.path.insert(0, "
          "'WORKTREE/python'). There is no pytest; the Rust test suite must still pass (it does not touch the Python code).\n")
for l in open(os.path.join(ROOT, "properties.jsonl")):
    p = json.loads(l)
    P = p["id"]
    W = "/tmp/mut_" + P
    t = tpl.replace("PROPERTY_TEXT", P + ": " + p["title"] + "\n" + p["statement"]).replace("WORKTREE", W).replace("NAME", "seed_" + P)
    if P in ("C12", "C13"):
        t += cnote.replace("WORKTREE", W)
    if P in ("C07", "C08", "C09"):
        t += pynote.replace("WORKTREE", W)
    tried = []
    for d in sorted(glob.glob(os.path.join(ROOT, "seeded", P + "-*"))):
        try:
            m = json.load(open(os.path.join(d, "meta.json")))
            tried.append("- " + " ".join(str(m.get("summary", "")).split())[:420])
        except Exception:
            pass
    t += ("\n\nALREADY TRIED in earlier rounds of this exercise (do NOT repeat these or make a close variant of one - same function and "
          "same idea; pick a different mechanism, a different function or a different clause of the property):\n" + "\n".join(tried) + "\n")
    t += ("\nLook for something different from the list: a rarely taken path, a secondary API entry point, an interaction between two "
          "features, a state that only arises after a particular sequence (grow, shrink, grow again; clear then reuse; iterators created "
          "before/after changes; capacity parity; tree height >= 3; very large or very small capacities), or a harmless-looking "
          "refactor/optimisation with a subtle hole. Read the clauses of the property one by one and prefer a clause none of the listed "
          "changes attacks.\n")
    open(os.path.join(out, "prompt_%s.txt" % P), "w").write(t)
print("written", out)
