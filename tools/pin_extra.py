#!/usr/bin/env python3
"""pin_extra.py <Props file> <Extra file> <module> name:PinnedName[:comment] ...
Appends `Theorem PinnedName : <statement copied from the Extra file>. Proof. exact module.name. Qed.`
to the Props file, adds PinnedName to its OBLIGATIONS line and makes sure the module is imported.
(A development-time helper; the check itself only reads the resulting Props file.)"""
import re, sys
noimport = "--noimport" in sys.argv
if noimport:
    sys.argv.remove("--noimport")
props, extra, module = sys.argv[1:4]
src = open(extra).read()
p = open(props).read()
if module not in p:
    # add import after the last "From BPT Require Import ... ." block
    m = list(re.finditer(r'From BPT Require Import[^.]*(?:\.[A-Za-z][^.]*)*\.\n', p))
    last = m[-1]
    p = p[:last.end()] + (f"From BPT Require {module}.\n" if noimport else f"From BPT Require Import {module}.\n") + p[last.end():]
added = []
for spec in sys.argv[4:]:
    parts = spec.split(":", 2)
    name, pinned = parts[0], parts[1]
    comment = parts[2] if len(parts) > 2 else ""
    m = re.search(r'(?:Theorem|Lemma|Corollary)\s+' + re.escape(name) + r'\s*:(.*?)\nProof\.', src, re.S)
    if not m:
        sys.exit("no statement for " + name)
    stmt = m.group(1).rstrip()
    if stmt.endswith("."):
        stmt = stmt[:-1]
    if re.search(r'\b' + pinned + r'\b', p):
        continue
    short = module.split(".")[-1]
    p += "\n" + (f"(* {comment} *)\n" if comment else "") + f"Theorem {pinned} :{stmt}.\nProof. exact {short}.{name}. Qed.\n"
    added.append(pinned)
p = re.sub(r'(OBLIGATIONS:[^\n*]*?)(\s*\*\))', lambda mm: mm.group(1).rstrip() + " " + " ".join(added) + mm.group(2), p, count=1)
open(props, "w").write(p)
print("added", added)
