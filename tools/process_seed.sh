#!/bin/bash
# process_seed.sh <PROP> <name> [checks...]: confirm a seeded change in /tmp/mut_<PROP>, store it under seeded/<name>,
# run the given checks (default: <PROP>) against it on /repo, undo, remove the worktree
P=$1; NAME=$2; shift 2; CHECKS=${@:-$P}
W=/tmp/mut_$P
mkdir -p /verif/seeded/$NAME
/verif/tools/confirm_seed.sh $W > /verif/seeded/$NAME/confirm.txt 2>&1
cp $W/OUT/* /verif/seeded/$NAME/ 2>/dev/null
cd /repo && git apply /verif/seeded/$NAME/patch.diff || { echo "patch does not apply"; exit 2; }
cd /verif
: > /verif/seeded/$NAME/checks.txt
for C in $CHECKS; do
  echo "== ./vp check $C" >> /verif/seeded/$NAME/checks.txt
  timeout 1200 ./vp check $C 2>&1 | grep -E "VIOLATION|KNOWN|-> (ok|FAIL)|ERROR" >> /verif/seeded/$NAME/checks.txt
  for f in $(grep -o "replay=[^ ]*" /verif/seeded/$NAME/checks.txt | cut -d= -f2 | sort -u | head -2); do cp $f /verif/seeded/$NAME/ 2>/dev/null; done
done
git -C /repo checkout -- . 
git -C /repo status --short | head -3
git -C /repo worktree remove --force $W
cat /verif/seeded/$NAME/confirm.txt | tail -8; cat /verif/seeded/$NAME/checks.txt
