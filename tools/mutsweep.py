#!/usr/bin/env python3
"""Systematic single-token mutation sweep over the Rust crate (a measurement of the checks, not a
check): for each mutant, run the quick checks of the properties that the mutated file bears on,
from a scratch copy of /verif pointed at a scratch worktree of /repo; mutants that no check
detects are then run against the crate's own test suite (a mutant the tests kill is of no
interest); what remains - compiles, passes the tests, escapes the checks - is listed for manual
inspection (equivalent mutant or a gap in the checks).

   tools/mutsweep.py [--lanes N] [--limit M] [--files a.rs,b.rs] [--seed S] [--out build/mutsweep.json]

Nothing under /repo or /verif (except the --out file and build/mutsweep.log) is modified."""
import os, re, sys, json, random, shutil, subprocess, argparse, threading, queue, time

ROOT = os.path.dirname(os.path.dirname(os.path.abspath(__file__)))
SRC = "rust/src"
LANGNAME = "rust"
STMT_DELETE = False
FILE_PROPS = {
    "insert_operations.rs": ["C04", "C01", "C06", "C11"],
    "delete_operations.rs": ["C04", "C01", "C06", "C11"],
    "get_operations.rs": ["C01", "C10"],
    "tree_structure.rs": ["C01", "C03", "C06", "C02"],
    "iteration.rs": ["C02", "C03", "C05"],
    "range_queries.rs": ["C03", "C02"],
    "node.rs": ["C04", "C01", "C11", "C02"],
    "compact_arena.rs": ["C16", "C06"],
    "validation.rs": ["C14", "C04"],
    "lib.rs": ["C10", "C14"],
    "construction.rs": ["C10", "C04"],
}
OPS = [
    (r" <= ", " < "), (r" < ", " <= "), (r" >= ", " > "), (r" > ", " >= "),
    (r" == ", " != "), (r" != ", " == "), (r" \+ 1\b", ""), (r" - 1\b", ""),
    (r" && ", " || "), (r" \|\| ", " && "), (r"\btrue\b", "false"), (r"\bfalse\b", "true"),
    (r" / 2\b", " / 2 + 1"), (r"\.is_empty\(\)", ".len() == 1"), (r"\bNULL_NODE\b", "0"),
]


LANG = {
    "rust": dict(src="rust/src", files=None),
    "py": dict(src="python/bplustree", files={"bplus_tree.py": ["C07", "C08", "C09"]}),
    "c": dict(src="python/bplustree_c_src", files={"node_ops.c": ["C12", "C13"], "tree_ops.c": ["C12", "C13"],
                                                     "bplustree_module.c": ["C12", "C13"]}),
}
OPS_PY = [
    (r" <= ", " < "), (r" < ", " <= "), (r" >= ", " > "), (r" > ", " >= "), (r" == ", " != "), (r" != ", " == "),
    (r" \+ 1\b", ""), (r" - 1\b", ""), (r" and ", " or "), (r" or ", " and "), (r"\bTrue\b", "False"), (r"\bFalse\b", "True"),
    (r" // 2\b", " // 2 + 1"), (r" is None\b", " is not None"), (r" is not None\b", " is None"), (r"\bnot ", ""),
    (r"\[0\]", "[-1]"), (r"\[-1\]", "[0]"), (r"bisect_left", "bisect_right"), (r"bisect_right", "bisect_left"),
    (r"\.pop\(0\)", ".pop()"), (r"\.pop\(\)", ".pop(0)"), (r"\.insert\(0, ", ".append("),
]
OPS_C = [
    (r" <= ", " < "), (r" < ", " <= "), (r" >= ", " > "), (r" > ", " >= "), (r" == ", " != "), (r" != ", " == "),
    (r" \+ 1\b", ""), (r" - 1\b", ""), (r" && ", " || "), (r" \|\| ", " && "), (r" / 2\b", " / 2 + 1"),
    (r"\+\+", "--"), (r"Py_INCREF\(([a-z_]+)\);", ""), (r"Py_DECREF\(([a-z_>\-]+)\);", ""), (r"Py_XDECREF\(([^;]*)\);", ""),
    (r"\bNULL\b", "(void*)1") ,
]


def code_lines_generic(path, lang):
    out = []
    incomment = False
    for i, l in enumerate(open(path).read().split("\n")):
        s = l.strip()
        if lang == "py":
            if s.startswith("#") or s.startswith('"""') or not s or s.startswith("raise ") or "print(" in s:
                continue
        else:
            if "/*" in s and "*/" not in s:
                incomment = True
            if incomment:
                if "*/" in s:
                    incomment = False
                continue
            if not s or s.startswith("//") or s.startswith("/*") or s.startswith("#") or s.startswith("*") or "VERIF" in s or "verif_" in s:
                continue
        out.append((i, l))
    return out


def code_lines(path):
    """(line number, text) of non-comment lines before the first #[cfg(test)]"""
    out = []
    for i, l in enumerate(open(path).read().split("\n")):
        if "#[cfg(test)]" in l:
            break
        s = l.strip()
        if not s or s.startswith("//") or s.startswith("#[") or s.startswith("///") or "debug_assert" in s \
                or "cfg(kentbeck" in s or "verif_" in s or "println!" in s or "eprintln!" in s:
            continue
        out.append((i, l))
    return out


def mutants(files, rng, limit, lang="rust"):
    ms = []
    for f in files:
        p = os.path.join("/repo", SRC, f)
        for (i, l) in (code_lines(p) if lang == "rust" else code_lines_generic(p, lang)):
            code = l.split("//")[0] if lang != "py" else l.split("  #")[0]
            for (pat, rep) in (OPS if lang == "rust" else OPS_PY if lang == "py" else OPS_C):
                for m in re.finditer(pat, code):
                    # skip generics / lifetimes / arrows
                    ctx = code[max(0, m.start() - 2):m.end() + 2]
                    if "->" in ctx or "=>" in ctx or "<K" in ctx or "<T" in ctx or "<'" in ctx:
                        continue
                    new = code[:m.start()] + rep + code[m.end():] + l[len(code):]
                    ms.append(dict(file=f, line=i + 1, old=l.strip(), new=new.strip(), text=new))
    if STMT_DELETE:
        # second family: delete one simple statement (a forgotten update of a link, counter, separator, flag)
        ms = []
        for f in files:
            p = os.path.join("/repo", SRC, f)
            for (i, l) in (code_lines(p) if lang == "rust" else code_lines_generic(p, lang)):
                t = l.strip()
                if lang == "rust":
                    ok = t.endswith(";") and not t.startswith(("let ", "return", "use ", "pub ", "fn ", "break", "continue", "}", "type ", "const ", "static "))                         and "=>" not in t and t.count("(") == t.count(")") and t.count("{") == t.count("}")
                elif lang == "py":
                    ok = not t.startswith(("return", "def ", "class ", "if ", "elif ", "else", "for ", "while ", "try", "except", "raise", "import", "from ", "@", "with ", '"""', "pass", "yield"))                         and not t.endswith(":") and ("=" in t or t.endswith(")")) and t.count("(") == t.count(")") and t.count("[") == t.count("]")
                else:
                    ok = t.endswith(";") and not t.startswith(("return", "int ", "PyObject", "BPlusNode", "size_t", "static ", "break", "continue", "}", "uint", "char", "void ", "struct"))                         and t.count("(") == t.count(")")
                if ok:
                    indent = l[:len(l) - len(l.lstrip())]
                    new = indent + ("pass" if lang == "py" else ("" if lang == "rust" else ";"))
                    ms.append(dict(file=f, line=i + 1, old=t, new="<deleted>", text=new))
    rng.shuffle(ms)
    return ms[:limit] if limit else ms


def sh(cmd, cwd=None, timeout=1800, env=None):
    try:
        r = subprocess.run(cmd, cwd=cwd, shell=isinstance(cmd, str), stdout=subprocess.PIPE, stderr=subprocess.STDOUT,
                           timeout=timeout, env=env)
        return r.returncode, r.stdout.decode("utf-8", "replace")
    except subprocess.TimeoutExpired:
        return -9, "timeout"


class Lane:
    def __init__(self, n):
        self.n = n
        self.w = f"/tmp/ms_lane{n}_repo"
        self.v = f"/tmp/ms_lane{n}_verif"
        sh(f"git -C /repo worktree remove --force {self.w}")
        shutil.rmtree(self.w, ignore_errors=True)
        rc, out = sh(f"git -C /repo worktree add -f --detach {self.w} HEAD")
        assert rc == 0, out
        shutil.rmtree(self.v, ignore_errors=True)
        os.makedirs(self.v)
        sh(f"rsync -a --exclude build/runs --exclude build/cov --exclude .git --exclude build/replays --exclude build/specaudit {ROOT}/ {self.v}/")
        sh(f"grep -rlI '/repo' {self.v}/vp {self.v}/tools {self.v}/harness | grep -v '/target/' | xargs sed -i 's#/repo#{self.w}#g'")

    def close(self):
        sh(f"git -C /repo worktree remove --force {self.w}")
        shutil.rmtree(self.v, ignore_errors=True)
        shutil.rmtree(self.w, ignore_errors=True)

    def run(self, m):
        path = os.path.join(self.w, SRC, m["file"])
        orig = open(path).read()
        lines = orig.split("\n")
        lines[m["line"] - 1] = m["text"]
        open(path, "w").write("\n".join(lines))
        res = dict(m)
        res.pop("text")
        try:
            if LANGNAME == "rust":
                rc, out = sh("CARGO_NET_OFFLINE=true cargo build --offline -q -p bplustree 2>&1 | tail -5", cwd=os.path.join(self.w, "rust"), timeout=600)
                if "error" in out:
                    res["verdict"] = "does-not-compile"
                    return res
            elif LANGNAME == "py":
                rc, out = sh([sys.executable, "-c", "import ast,sys;ast.parse(open(sys.argv[1]).read())", path])
                if rc != 0:
                    res["verdict"] = "does-not-compile"
                    return res
            else:
                rc, out = sh("gcc -fsyntax-only -std=gnu99 -I$(python3 -c \"import sysconfig;print(sysconfig.get_paths()['include'])\") -I. %s 2>&1 | grep -c error" % m["file"],
                             cwd=os.path.join(self.w, SRC))
                if out.strip() not in ("0", ""):
                    res["verdict"] = "does-not-compile"
                    return res
            for prop in FILE_PROPS[m["file"]]:
                rc, out = sh(["./vp", "check", prop], cwd=self.v, timeout=1500)
                if "nobuild" in out:
                    res["verdict"] = "does-not-compile"
                    return res
                if "VIOLATION" in out:
                    res["verdict"] = "detected"
                    res["by"] = prop
                    res["how"] = "input" if "no-failing-input-found" not in out else "correspondence"
                    return res
            if LANGNAME != "rust":
                res["verdict"] = "ESCAPED"
                return res
            # escaped the checks: do the crate's own tests kill it?
            rc, out = sh("CARGO_NET_OFFLINE=true cargo test --workspace --no-fail-fast --offline 2>&1 | grep -E '^test result|FAILED|panicked' | head -60",
                         cwd=os.path.join(self.w, "rust"), timeout=1800)
            failed = ("FAILED" in out) or ("failed" in out and not all(" 0 failed" in l for l in out.split("\n") if l.startswith("test result")))
            res["verdict"] = "killed-by-tests-only" if failed else "ESCAPED"
            return res
        finally:
            open(path, "w").write(orig)


def main():
    ap = argparse.ArgumentParser()
    ap.add_argument("--lanes", type=int, default=3)
    ap.add_argument("--limit", type=int, default=120)
    ap.add_argument("--files", default="")
    ap.add_argument("--lang", default="rust")
    ap.add_argument("--stmt-delete", action="store_true", help="mutants = deletion of one simple statement")
    ap.add_argument("--seed", type=int, default=1)
    ap.add_argument("--out", default=os.path.join(ROOT, "build", "mutsweep.json"))
    ap.add_argument("--rerun-escaped", default="", help="result file of an earlier sweep: re-run only its ESCAPED mutants")
    ap.add_argument("--props", default="", help="with --rerun-escaped: the checks to run (comma separated) instead of the per-file list")
    a = ap.parse_args()
    global SRC, LANGNAME, STMT_DELETE
    STMT_DELETE = a.stmt_delete
    LANGNAME = a.lang
    SRC = LANG[a.lang]["src"]
    if LANG[a.lang]["files"]:
        FILE_PROPS.clear()
        FILE_PROPS.update(LANG[a.lang]["files"])
    if not a.files:
        a.files = ",".join(FILE_PROPS)
    rng = random.Random(a.seed)
    ms = mutants(a.files.split(","), rng, 0 if a.rerun_escaped else a.limit, a.lang)
    if a.rerun_escaped:
        esc = set((x["file"], x["line"], x["new"]) for x in json.load(open(a.rerun_escaped)) if x["verdict"] == "ESCAPED")
        ms = [m for m in ms if (m["file"], m["line"], m["new"]) in esc]
        if a.props:
            for f in FILE_PROPS:
                FILE_PROPS[f] = a.props.split(",")
    print(f"{len(ms)} mutants", flush=True)
    q = queue.Queue()
    for m in ms:
        q.put(m)
    results, lock = [], threading.Lock()

    def work(n):
        lane = Lane(n)
        try:
            while True:
                try:
                    m = q.get_nowait()
                except queue.Empty:
                    return
                t0 = time.time()
                try:
                    r = lane.run(m)
                except Exception as e:      # noqa
                    r = dict(m, verdict="error", error=repr(e))
                    r.pop("text", None)
                r["secs"] = round(time.time() - t0)
                with lock:
                    results.append(r)
                    json.dump(results, open(a.out, "w"), indent=1)
                    print(f"[{len(results)}/{len(ms)}] {r['verdict']:22s} {r.get('by', ''):4s} {r['file']}:{r['line']}  {r['old'][:60]}  =>  {r['new'][:60]}", flush=True)
        finally:
            lane.close()
    ts = [threading.Thread(target=work, args=(i,)) for i in range(a.lanes)]
    for t in ts:
        t.start()
    for t in ts:
        t.join()
    from collections import Counter
    print(Counter(r["verdict"] for r in results))
    for r in results:
        if r["verdict"] == "ESCAPED":
            print("ESCAPED", r["file"], r["line"], r["old"], "=>", r["new"])


if __name__ == "__main__":
    main()
