"""Seeded case generators for the pure-Python BPlusTreeMap (properties C07, C08, C09).
All randomness comes from random.Random(f"{prop}-{seed}-{shard}").

Op file syntax (shared by extract/py_driver.ml and harness/py/py_harness.py):
   H <hid> py cap=<n> keys=<int|str|tuple|float|obj>     new history; map 0 = BPlusTreeMap(capacity=n)
   set <kz> <kid> <v|N>      getitem <kz>     del <kz>     get <kz> [<d>]     in <kz>     len     bool
   pop <kz> [<d> [<d2>]]     popitem          setdefault <kz> <kid> [<d>]     update <kz>:<kid>:<v> ...
   copy <name>   use <name>  clear            new <name> <cap>              bulk <name> <cap> <kz>:<kid>:<v> ...
   items|keys|values|range <a|-> <b|->
   DUMP 0|1        switch the per-call state dumps (and the per-call full oracles) off / on
   ORACLE sweep    harness only: all (start, end) pairs against the filtered dict
<kid> is the serial number of the key object created by the call, N is None.

Environment: PYGEN_AVOID_NONE_DELETE=1 makes the generators overwrite a stored None before
deleting / popping that key (used to demonstrate agreement on a tree that still has defect
D12: deleting a key whose value is None).
"""
import os
import random

MODES = ["int", "str", "tuple", "float", "obj"]


def avoid_none_delete():
    return os.environ.get("PYGEN_AVOID_NONE_DELETE", "") not in ("", "0")


class PyHist:
    def __init__(self, hid, cap, mode, rng, p_none=0.15):
        self.hid = hid
        self.lines = [f"H {hid} py cap={cap} keys={mode}"]
        self.sid = 1
        self.rng = rng
        self.p_none = p_none
        self.cap = cap
        self.maps = {0: {}} if cap >= 4 else {}     # name -> {kz: value is None}
        self.caps = {0: cap} if cap >= 4 else {}
        self.cur = 0
        self.nops = 0
        self.avoid = avoid_none_delete()

    # -- plumbing
    def add(self, s):
        self.lines.append(s)
        self.nops += 1

    def text(self):
        return "\n".join(self.lines) + "\n"

    def m(self):
        return self.maps.get(self.cur)

    def newval(self):
        if self.rng.random() < self.p_none:
            return "N"
        v = self.sid * 10
        return str(v)

    def newkid(self):
        k = self.sid
        self.sid += 1
        return k

    # -- calls
    def set(self, z, v=None):
        v = self.newval() if v is None else v
        self.add(f"set {z} {self.newkid()} {v}")
        if self.m() is not None:
            self.m()[z] = (v == "N")

    def _unnone(self, z):
        """with PYGEN_AVOID_NONE_DELETE: make sure key z does not hold None"""
        m = self.m()
        if self.avoid and m is not None and m.get(z):
            self.set(z, str(self.sid * 10))

    def delete(self, z):
        self._unnone(z)
        self.add(f"del {z}")
        if self.m() is not None:
            self.m().pop(z, None)

    def pop(self, z, args):
        self._unnone(z)
        self.add("pop " + " ".join([str(z)] + args))
        if self.m() is not None and len(args) <= 1:
            self.m().pop(z, None)

    def popitem(self):
        m = self.m()
        if m:
            self._unnone(min(m))
        self.add("popitem")
        if m:
            del m[min(m)]

    def setdefault(self, z, d):
        kid = self.newkid()
        self.add(f"setdefault {z} {kid}" + ("" if d is None else f" {d}"))
        m = self.m()
        if m is not None and z not in m:
            m[z] = (d is None or d == "N")

    def update(self, pairs):
        items = []
        for z, v in pairs:
            items.append(f"{z}:{self.newkid()}:{v}")
            if self.m() is not None:
                self.m()[z] = (v == "N")
        self.add("update" + "".join(" " + i for i in items))

    def copy(self, name):
        self.add(f"copy {name}")
        if self.m() is not None:
            self.maps[name] = dict(self.m())
            self.caps[name] = self.caps[self.cur]
            self.cur = name

    def use(self, name):
        self.add(f"use {name}")
        if name in self.maps:
            self.cur = name

    def clear(self):
        self.add("clear")
        if self.m() is not None:
            self.m().clear()

    def new(self, name, cap):
        self.add(f"new {name} {cap}")
        if cap >= 4:
            self.maps[name] = {}
            self.caps[name] = cap
            self.cur = name

    def bulk(self, name, cap, pairs):
        items = [f"{z}:{self.newkid()}:{v}" for z, v in pairs]
        self.add(f"bulk {name} {cap}" + "".join(" " + i for i in items))
        if cap >= 4:
            self.maps[name] = {z: (v == "N") for z, v in pairs}
            self.caps[name] = cap
            self.cur = name

    def raw(self, s):
        self.add(s)

    def directive(self, s):
        self.lines.append(s)


# ----------------------------------------------------------------------------- pieces
def pick_universe(rng):
    return rng.choice([6, 8, 10, 12, 16, 17, 24, 32, 40])


def key_in(rng, U, base=0):
    r = rng.random()
    if r < 0.06:
        return base + rng.choice([-1, -3, U, U + 2, -1000, 1000 + U])
    return base + rng.randrange(U)


def bound(rng, h, U, base):
    """an endpoint: None, a present key, a gap, a sentinel"""
    r = rng.random()
    if r < 0.18:
        return "-"
    m = h.m() or {}
    if m and r < 0.55:
        return str(rng.choice(sorted(m)))
    if m and r < 0.65:
        return str(rng.choice(sorted(m)) + rng.choice([-1, 1]))
    if r < 0.75:
        return str(base + rng.choice([-1, -9, U, U + 5, -10 ** 6, 10 ** 6]))
    return str(base + rng.randrange(-1, U + 1))


def reader_c07(h, rng, U, base):
    z = key_in(rng, U, base)
    m = h.m() or {}
    if m and rng.random() < 0.5:
        z = rng.choice(sorted(m))
    r = rng.random()
    if r < 0.18:
        h.raw(f"getitem {z}")
    elif r < 0.40:
        d = rng.choice(["", "", " N", f" {rng.randrange(1000) + 7}"])
        h.raw(f"get {z}{d}")
    elif r < 0.55:
        h.raw(f"in {z}")
    elif r < 0.68:
        h.raw("len")
    elif r < 0.75:
        h.raw("bool")
    else:
        range_op(h, rng, U, base)


def range_op(h, rng, U, base):
    kind = rng.choice(["items", "items", "keys", "values", "range"])
    r = rng.random()
    if r < 0.2:
        h.raw(f"{kind} - -")
        return
    a, b = bound(rng, h, U, base), bound(rng, h, U, base)
    if a != "-" and rng.random() < 0.2:
        b = str(int(a) + rng.choice([0, 0, 1, -1, 2]))      # empty / one-key / inverted intervals
    h.raw(f"{kind} {a} {b}")


def dict_op(h, rng, U, base):
    z = key_in(rng, U, base)
    m = h.m() or {}
    if m and rng.random() < 0.6:
        z = rng.choice(sorted(m))
    r = rng.random()
    if r < 0.25:
        n = rng.choice([0, 0, 1, 1, 1])
        if rng.random() < 0.04:
            n = 2
        h.pop(z, [rng.choice(["N", str(rng.randrange(500) + 3)]) for _ in range(n)])
    elif r < 0.45:
        h.popitem()
    elif r < 0.65:
        h.setdefault(z, rng.choice([None, "N", str(h.sid * 10 + 1)]))
    elif r < 0.80:
        n = rng.choice([0, 1, 2, 3, 5, 9])
        pairs = [(key_in(rng, U, base), h.newval()) for _ in range(n)]
        if rng.random() < 0.4:
            # distinct keys in ascending order: the harness then also passes the argument as another BPlusTreeMap
            # (whose items() arrive in key order), and sometimes the keys lie beyond the current maximum
            ks = sorted(set(k for k, _ in pairs))
            if rng.random() < 0.3:
                top = max(list((h.m() or {0: 0}).keys()) + [0])
                ks = [top + 1 + i for i in range(len(ks))]
            pairs = [(k, h.newval()) for k in ks]
        h.update(pairs)
    elif r < 0.88:
        h.copy(rng.randrange(1, 4))
    elif r < 0.95:
        h.use(rng.randrange(0, 5))
    elif r < 0.98:
        h.clear()
    else:
        h.new(rng.randrange(1, 4), rng.choice([0, 1, 2, 3, 3, 4, 5, 7]))


def sorted_items(h, rng, n, U, base, repeats):
    """n items sorted by key (non-strictly when repeats)"""
    zs = sorted(base + rng.randrange(U) for _ in range(n)) if repeats else \
        sorted(rng.sample(range(base, base + max(U, n)), n))
    return [(z, h.newval()) for z in zs]


def bulk_op(h, rng, U, base):
    cap = rng.choice([4, 4, 4, 5, 5, 6, 7, 8, 9, 16])
    if rng.random() < 0.04:
        cap = rng.choice([0, 2, 3])
    n = rng.choice([0, 1, 2, 3, 4, 5, 7, 9, 13, 20, 33, 60, 120])
    repeats = rng.random() < 0.4
    h.bulk(rng.randrange(1, 4), cap, sorted_items(h, rng, n, max(U, n // 2 + 1) if repeats else max(U, n), base, repeats))


def mutate(h, rng, U, base, p_ins):
    z = key_in(rng, U, base)
    if rng.random() < p_ins:
        h.set(z)
    else:
        m = h.m() or {}
        if m and rng.random() < 0.8:
            z = rng.choice(sorted(m))
        h.delete(z)


# ----------------------------------------------------------------------------- histories
def gen_history(prop, hid, rng, tier):
    style = rng.choice(["mix", "mix", "mix", "asc", "desc", "saw", "saw", "dict", "fill"])
    cap = rng.choice([4, 4, 4, 4, 5, 5, 6, 7, 8, 9])
    if rng.random() < 0.05:
        cap = rng.choice([16, 32])
    U = pick_universe(rng) if cap < 16 else rng.choice([100, 300])
    n = rng.choice([40, 120, 250] if tier == "quick" else [120, 300, 700])
    base = rng.choice([0, 0, 0, -20, 1000, -(2 ** 40), 2 ** 40])
    mode = rng.choice(MODES)
    h = PyHist(hid, cap, mode, rng, p_none=rng.choice([0.0, 0.1, 0.2, 0.5]))
    p_reader = {"C07": 0.22, "C08": 0.30, "C09": 0.06}[prop]
    p_dict = {"C07": 0.20, "C08": 0.05, "C09": 0.10}[prop]
    p_bulk = {"C07": 0.004, "C08": 0.01, "C09": 0.03}[prop]
    if style == "dict":
        p_dict *= 2.2
    phase = 0.8
    asc = 0
    if prop == "C09" and rng.random() < 0.35:
        bulk_op(h, rng, U, base)
    for i in range(n):
        if style == "saw" and i % 50 == 0:
            phase = 0.88 if (i // 50) % 2 == 0 else 0.12
        if prop == "C08" and i % 9 == 8:
            h.directive("ORACLE sweep")
        r = rng.random()
        if r < p_reader:
            if prop == "C08":
                range_op(h, rng, U, base)
            else:
                reader_c07(h, rng, U, base)
        elif r < p_reader + p_dict:
            dict_op(h, rng, U, base)
        elif r < p_reader + p_dict + p_bulk:
            bulk_op(h, rng, U, base)
        elif style == "asc":
            if rng.random() < 0.78:
                asc += 1
                h.set(base + asc)
            else:
                h.delete(base + rng.randrange(max(1, asc + 1)))
        elif style == "desc":
            if rng.random() < 0.78:
                asc += 1
                h.set(base - asc)
            else:
                h.delete(base - rng.randrange(max(1, asc + 1)))
        elif style == "saw":
            mutate(h, rng, U, base, phase)
        elif style == "fill":
            # fill the universe, then drain it completely (every merge / collapse path), twice
            m = h.m() or {}
            if (i // 80) % 2 == 0:
                mutate(h, rng, U, base, 0.9)
            elif m:
                h.delete(rng.choice(sorted(m)) if rng.random() < 0.7 else min(m))
            else:
                mutate(h, rng, U, base, 0.9)
        else:
            mutate(h, rng, U, base, 0.56)
    if prop == "C08":
        h.directive("ORACLE sweep")
        h.raw("items - -")
    if prop == "C07" and rng.random() < 0.3:
        # drain with popitem until the map is empty, then once more (KeyError), then every
        # reader / remover on the emptied map
        m = h.m()
        if m is not None and len(m) <= 400:
            for _ in range(len(m) + 1):
                h.popitem()
            h.popitem()
            for line in ("len", "bool", f"getitem {base}", f"get {base} 5", f"pop {base}", f"pop {base} 7",
                         f"in {base}", "items - -"):
                h.raw(line)
            h.delete(base)
            h.set(base)
            h.popitem()
            h.popitem()
    return h


def gen_capacity_history(hid, rng):
    """constructor: capacities below 4 are rejected"""
    cap = rng.choice([-3, 0, 1, 2, 3])
    h = PyHist(hid, cap, rng.choice(MODES), rng)
    h.raw("len")
    return h


def gen_new_caps(hid, rng):
    h = PyHist(hid, 4, rng.choice(MODES), rng)
    for c in [0, 1, 2, 3, 4, 5, 3, 128, 2]:
        h.new(rng.randrange(1, 4), c)
        h.set(rng.randrange(10))
        h.raw("len")
    h.use(0)
    h.raw("len")
    return h


def gen_big(hid, rng, tier):
    """thousands of leaves: len() must work for any number of entries"""
    cap = rng.choice([4, 4, 5])
    n = rng.choice([5000, 3000]) if tier == "quick" else rng.choice([5000, 12000])
    h = PyHist(hid, cap, rng.choice(["int", "str", "obj"]), rng, p_none=0.0)
    h.directive("DUMP 0")
    style = rng.choice(["asc", "asc", "desc", "rand"])
    for i in range(n):
        z = i if style == "asc" else (-i if style == "desc" else rng.randrange(10 * n))
        h.set(z)
        if i % 1000 == 999:
            h.raw("len")
    h.raw("len")
    h.raw("bool")
    for _ in range(40):
        z = rng.randrange(n) * (-1 if style == "desc" else 1)
        h.raw(rng.choice([f"getitem {z}", f"in {z}", f"get {z} 5"]))
    for i in range(n // 3):
        z = rng.randrange(n) * (-1 if style == "desc" else 1)
        h.delete(z)
    h.raw("len")
    h.directive("DUMP 1")
    h.raw("len")
    h.raw("copy 1")
    h.raw("len")
    return h


def gen_wide(hid, rng, tier, prop):
    """large node capacities (the package default is 128): wide branches, three levels where the size allows;
    grow, observe, shrink by more than half (branch-level borrow / merge among wide nodes), observe, regrow"""
    cap = rng.choice([64, 128, 128, 129, 200, 255, 256, 257])
    n = min(cap * cap // 2 + 4 * cap, 9000 if tier == "quick" else 40000)
    h = PyHist(hid, cap, rng.choice(["int", "int", "str", "obj"]), rng, p_none=rng.choice([0.0, 0.1]))
    h.directive("DUMP 0")
    style = rng.choice(["asc", "desc", "rand", "rand"])
    keys = list(range(n))
    if style == "desc":
        keys.reverse()
    elif style == "rand":
        rng.shuffle(keys)
    for i, z in enumerate(keys):
        h.set(z)
        if i % 2000 == 1999:
            h.raw("len")
    def observe():
        h.directive("DUMP 1")
        h.raw("len")
        for _ in range(6):
            a = rng.randrange(-2, n + 2)
            b = a + rng.choice([0, 1, cap // 2, cap, 3 * cap])
            h.raw(rng.choice([f"items {a} {b}", f"keys {a} -", f"range {a} {b}", f"values - {b}"]))
            z = rng.randrange(-1, n + 1)
            h.raw(rng.choice([f"getitem {z}", f"in {z}", f"get {z} 5", f"pop {z} 7", f"setdefault {z} {h.newkid()} 3"]))
        if prop == "C08":
            h.raw("items - -")
        h.raw("popitem")
        h.directive("DUMP 0")
    observe()
    order = list(range(n))
    rng.shuffle(order)
    for i, z in enumerate(order[: (n * 2) // 3]):
        h.delete(z)
        if i % 1500 == 1499:
            h.raw("len")
    observe()
    for z in order[: n // 4]:
        h.set(z)
    observe()
    for z in sorted(order[(n * 2) // 3:])[: n // 6]:      # drain from the low end: leftmost-branch merges
        h.delete(z)
    observe()
    return h


def gen_bulk_history(hid, rng, tier):
    """C09: bulk loads of many shapes, each followed by mutations of the loaded map"""
    h = PyHist(hid, rng.choice([4, 5, 6, 8]), rng.choice(MODES), rng, p_none=rng.choice([0.0, 0.2]))
    U = rng.choice([12, 30, 80])
    base = rng.choice([0, -50, 2 ** 30])
    for j in range(rng.choice([3, 6, 10])):
        bulk_op(h, rng, U, base)
        h.raw("len")
        h.raw("items - -")
        for _ in range(rng.choice([0, 5, 30, 80])):
            mutate(h, rng, U, base, rng.choice([0.3, 0.5, 0.7]))
    return h


def gen_histories(prop, seed, shard, nhist, tier):
    rng = random.Random(f"{prop}-{seed}-{shard}")
    hs = []
    for i in range(nhist):
        hid = f"{prop}s{shard}h{i}"
        r = rng.random()
        if prop == "C07" and r < 0.04:
            hs.append(gen_capacity_history(hid, rng))
        elif prop == "C07" and r < 0.07:
            hs.append(gen_new_caps(hid, rng))
        elif prop == "C09" and r < 0.15:
            hs.append(gen_bulk_history(hid, rng, tier))
        else:
            hs.append(gen_history(prop, hid, rng, tier))
    if prop == "C07" and shard % 4 == 0:
        hs.append(gen_big(f"{prop}s{shard}big", rng, tier))
    if shard % 4 == 1:
        hs.append(gen_wide(f"{prop}s{shard}wide", rng, tier, prop))
    return hs


if __name__ == "__main__":
    import sys
    prop, seed, shard, nhist = sys.argv[1], int(sys.argv[2]), int(sys.argv[3]), int(sys.argv[4])
    tier = sys.argv[5] if len(sys.argv) > 5 else "quick"
    sys.stdout.write("".join(h.text() for h in gen_histories(prop, seed, shard, nhist, tier)))
