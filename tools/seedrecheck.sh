#!/bin/bash
# seedrecheck.sh <name> [checks...]: re-run checks against the stored seeded change seeded/<name>/patch.diff
# in a fresh scratch worktree of /repo and a scratch copy of /verif (nothing in /repo or /verif/evidence is touched).
NAME=$1; shift; P=${NAME%%-*}; CHECKS=${@:-$P}
W=/tmp/mutre_$NAME
ALT=/tmp/verif_alt_$NAME
git -C /repo worktree remove --force $W 2>/dev/null
git -C /repo worktree add -f --detach $W HEAD >/dev/null 2>&1 || { echo "cannot create worktree"; exit 2; }
git -C $W apply /verif/seeded/$NAME/patch.diff || { echo "patch does not apply"; git -C /repo worktree remove --force $W; exit 2; }
rm -rf $ALT; mkdir -p $ALT
rsync -a --exclude build/runs --exclude build/cov --exclude .git --exclude build/replays /verif/ $ALT/
grep -rlI "/repo" $ALT/vp $ALT/tools $ALT/harness 2>/dev/null | grep -v "/target/" | xargs sed -i "s#/repo#$W#g"
cd $ALT
for C in $CHECKS; do
  echo "== recheck $NAME: ./vp check $C"
  timeout 1500 ./vp check $C 2>&1 | grep -E "VIOLATION|KNOWN|-> (ok|FAIL)|ERROR" | sed "s#$ALT#/verif#g"
done
cd /verif
rm -rf $ALT
git -C /repo worktree remove --force $W
