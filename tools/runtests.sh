#!/bin/bash
# runs the pinned suite in /repo (guard off); prints pass/fail totals
cd /repo && CARGO_NET_OFFLINE=true cargo test --workspace --no-fail-fast --offline 2>&1 | awk '/^test result/ {p+=$4; f+=$6} /FAILED|panicked/ {print} END {print "passed="p" failed="f}'
