#!/bin/bash
# confirm_seed.sh <worktree>: confirms a seeded change: tests pass with it, demo fails with it, demo passes without it
W=$1
cd $W || exit 2
P=OUT/patch.diff
echo "== tests WITH change"; CARGO_NET_OFFLINE=true cargo test --workspace --no-fail-fast --offline 2>&1 | awk '/^test result/ {p+=$4; f+=$6} END {print "passed="p" failed="f}'
if [ -f rust/examples/demo_mut.rs ]; then
  echo "== demo WITH change"; CARGO_NET_OFFLINE=true cargo run --offline -q -p bplustree --example demo_mut 2>&1 | tail -2; echo "exit=${PIPESTATUS[0]}"
  git apply -R $P || { echo "cannot revert"; exit 2; }
  echo "== demo WITHOUT change"; CARGO_NET_OFFLINE=true cargo run --offline -q -p bplustree --example demo_mut 2>&1 | tail -2; echo "exit=${PIPESTATUS[0]}"
  git apply $P
fi
if [ -f OUT/demo.py ]; then
  echo "== python demo WITH change"; python3 OUT/demo.py 2>&1 | tail -3; echo "exit=${PIPESTATUS[0]}"
  git apply -R $P || { echo "cannot revert"; exit 2; }
  echo "== python demo WITHOUT change"; python3 OUT/demo.py 2>&1 | tail -3; echo "exit=${PIPESTATUS[0]}"
  git apply $P
fi
